// C06 (reader-writer locks on the kernel contract K): writers exclusive, readers shared, a failed lock() is a no-op,
// after the last holder unlocks a waiting writer or all waiting readers are admitted.
// Real code: qrwlock (thread/thread.h: lock/try_lock/unlock/do_lock/try_wake/__trylock*/__unlock_*) or rwlock (thread/thread.cpp:
// lock/unlock with the real mutex + condition_variable under it), condition_variable::wait, waitq::resume_one/all - inlined into the entries.
#include "verif_h.h"
#include "nolog.h"
#ifdef USE_RWLOCK
// rwlock::lock / unlock are out-of-line in thread.cpp: include just their definitions by compiling thread.cpp's text is not
// possible without the scheduler, so the rwlock variant runs on the kernel contract K (Layer B) instead
#define noinline
#define protected public
#include "thread/thread.cpp"
#undef protected
#undef noinline
#include "kcontract.h"
#else
#include "ksync.h"          // qrwlock is header-only: its own protocol is real, cv / spinlock hand-over are contracts
#endif
using namespace photon;

#ifdef USE_RWLOCK
typedef rwlock RW;
#else
typedef qrwlock RW;
#endif
static Raw<RW> L;
static int readers, writers;          // ghost occupancy
static int lret[KN], lmode[KN]; static bool blocked_for_mode[KN];

template<int ME> static inline __attribute__((always_inline)) void do_locker(int fixed_mode)
{
    int mode = fixed_mode;
    if (mode == 0) mode = nondet_bool() ? RLOCK : WLOCK;
    uint8_t k = nondet_u8(); ASSUME(k < 2);
    Timeout t = k ? Timeout(100) : Timeout();
    lmode[ME] = mode;
    int r = L.v.lock(mode, t);
    lret[ME] = r;
    if (r == 0) {
        if (mode == WLOCK) { writers++; CHECK(writers == 1 && readers == 0, "a writer holds the lock alone"); }
        else { readers++; CHECK(writers == 0, "readers never share the lock with a writer"); }
        thread_yield();                                    // stay inside while others run
        if (mode == WLOCK) { CHECK(writers == 1 && readers == 0, "a writer holds the lock alone (after others ran)"); writers--; }
        else { CHECK(writers == 0, "readers never share the lock with a writer (after others ran)"); readers--; }
        L.v.unlock();
    } else {
        CHECK(r == -1, "failure is -1");
        CHECK(k == 1, "lock() without a deadline does not fail (no interrupter in this harness)");
    }
}
extern "C" {
void thread_entry_0() { do_locker<0>(MODE0); }
void thread_entry_1() { do_locker<1>(MODE1); }
#if NT > 2
void thread_entry_2() { do_locker<2>(MODE2); }
#endif
#if NT > 3
void thread_entry_3() { do_locker<3>(MODE3); }
#endif
NOINL void world_init() { new (&L.v) RW(); }
NOINL void world_final(uint32_t all_done, uint32_t stuck)
{
    if (all_done) {
        CHECK(readers == 0 && writers == 0, "quiescence: nobody inside");
#ifdef USE_RWLOCK
        CHECK(L.v.state == 0, "quiescence: lock state is 'free' (failed lockers left no trace)");
#else
        CHECK(L.v.lock_state.load() == 0, "quiescence: lock state is 'free' (failed lockers left no trace)");
#endif
        bool all_ok = true; for (int i = 0; i < KN; i++) if (lret[i] != 0) all_ok = false;
        if (all_ok) WITNESS("every locker acquired");
        if (lret[1] == -1) WITNESS("locker 1 timed out");
    }
}
}
