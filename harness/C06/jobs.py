import os, importlib.util
from vlib import Job
_spec = importlib.util.spec_from_file_location('c01jobs', os.path.join(os.path.dirname(__file__), '..', 'C01', 'jobs.py'))
_c01 = importlib.util.module_from_spec(_spec); _spec.loader.exec_module(_c01)
kjob = _c01.kjob; ksjob = _c01.ksjob

META = dict(
    bounds='qrwlock and rwlock: 2-3 lockers with fixed or symbolic read/write mode, timeout never / finite, each holder yields once inside; cooperative scheduling with symbolic timeout events, <= 6-8 execution slices; '
           'a waiter without deadline that is never admitted shows up as a deadlock (lost wake-up) at the end of the run',
    outside='rwlock (the mutex+cv based one): its harness exists (USE_RWLOCK) but the 2-locker formula exhausts the SAT solver memory, so only qrwlock is decided; pre-emption inside the primitives (multi-vCPU interleaving of atomic steps), interrupts, try_lock, more threads / acquisitions',
    assumptions=['kernel contract K (rt/kcontract.h)', 'await-as-assume for spin iterations'],
)
SRC = 'C06/h_rw.cpp'
R, W, S = 0x1000, 0x2000, 0
def jobs(tier):
    q = tier == 'quick'
    J = []
    def mk(name, nt, slices, modes, extra=(), **kw):
        D = ['MODE%d=%d' % (i, m) for i, m in enumerate(modes)] + list(extra)
        if 'USE_RWLOCK' in extra: J.append(kjob(name, SRC, nt, slices, D, desc=name, unwind=3, **kw))
        else: J.append(ksjob(name, SRC, nt, slices, D, desc=name, unwind=3, **kw))
    mk('qrw_W_R', 2, 6, [W, R], timeout=900, mem_gb=4)
    mk('qrw_R_W', 2, 6, [R, W], timeout=900, mem_gb=4)
    mk('qrw_sym2', 2, 6, [S, S], timeout=1200, mem_gb=4)
    if not q: mk('qrw_W_R_Wt_R', 4, 10, [W, R, W, R], timeout=4000, mem_gb=12)
    if not q:
        mk('qrw_sym3', 3, 8, [S, S, S], timeout=6000, mem_gb=8)
    mk('qrw_W_R_mv', 2, 8, [W, R], timeout=900, mem_gb=10, preempt=True)     # lockers on different vCPUs: pre-emption before every atomic operation of qrwlock
    mk('rw_W_R', 2, 6, [W, R], extra=['USE_RWLOCK'], timeout=900, mem_gb=10)
    mk('rw_R_W', 2, 6, [R, W], extra=['USE_RWLOCK'], timeout=900, mem_gb=10)
    mk('rw_sym2', 2, 7, [S, S], extra=['USE_RWLOCK'], timeout=900, mem_gb=12)
    if os.environ.get('VERIF_EXPERIMENTAL'): mk('rw_sym3', 3, 9, [S, S, S], extra=['USE_RWLOCK'], timeout=6000, mem_gb=30)
    return J
