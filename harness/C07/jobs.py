import os, importlib.util
from vlib import Job
_spec = importlib.util.spec_from_file_location('c01jobs', os.path.join(os.path.dirname(__file__), '..', 'C01', 'jobs.py'))
_c01 = importlib.util.module_from_spec(_spec); _spec.loader.exec_module(_c01)
ksjob = _c01.ksjob

META = dict(
    bounds='MPMC / batch-MPMC / SPSC ring queues of capacity 2 (and 4 in thorough): up to 2 producers x <=2 pushes, up to 2 consumers x <=2 pop attempts, every interleaving of the atomic steps, '
           'symbolic 64-bit start position (index wrap-around included), SC and x86-TSO; each retry loop explored up to the stated unwinding (executions needing more retries are cut, not claimed)',
    outside='RingChannel/FlexRingChannel notification protocol (needs photon semaphores: not encoded here); more threads/operations; payload types other than integers; ARM memory ordering; '
            'retry loops beyond the unwinding bound (no unwinding assertion on CAS-retry/spin loops)',
    assumptions=['start state: head == tail == X with slot marks of the previous turn (what an empty queue that has run X operations looks like)',
                 'ghost accounting arrays are updated next to the operation they describe, not atomically with it'],
)
SRC = 'C07/h_ring.cpp'
CL = ['-mllvm', '-inline-threshold=100000000']

def jobs(tier):
    q = tier == 'quick'
    J = []
    # (kind, name, cap, NP, NC, KP, KC, slices, extra)
    cfgs = [(2, 'spsc', 2, 1, 1, 2, 2, 6, []), (0, 'mpmc', 2, 1, 1, 1, 1, 5, []), (1, 'batch', 2, 1, 1, 1, 1, 5, [])]
    for kind, nm, cap, np_, nc, kp, kc, slices, extra in cfgs:
        nt = np_ + nc
        D = ['QKIND=%d' % kind, 'QCAP=%d' % cap, 'NP=%d' % np_, 'NC=%d' % nc, 'KP=%d' % kp, 'KC=%d' % kc, 'NT=%d' % nt] + extra
        J.append(Job('%s_c%d_%dp%dc_%dx%d_s%d' % (nm, cap, np_, nc, kp, kc, slices), SRC, 'sched', roots=['^@thread_entry_', '^@world_'], defines=D, clang=CL,
                     ir2c=['--thread', '^@thread_entry_', '--cs-atomic-only'], shims=['libc.c', 'sched.c'],
                     cbmc=['-DNT=%d' % nt, '-DSLICES=%d' % slices, '-DVERIF_NO_K'], unwind=4, unwindset=['f_sched.0:%d' % (slices + 1)],
                     nochecks=True, unwinding_assertions=False, timeout=700 if q else 4000, mem_gb=8,
                     desc='%s queue cap %d: %d producers x %d pushes, %d consumers x %d pops, <= %d slices' % (nm, cap, np_, kp, nc, kc, slices),
                     bounds='capacity %d, %dP x %d, %dC x %d, pre-emption before every atomic operation, <= %d execution slices, retry loops unwound 4, SC' % (cap, np_, kp, nc, kc, slices)))
    # RingChannel notification protocol (semaphores as contracts, pre-emption before every atomic operation and blocking call)
    def ch(name, nt, slices, D, **kw):
        j = ksjob(name, 'C07/h_chan.cpp', nt, slices, D, preempt=True, stuck_legal=True, unwind=3, **kw)
        j.cbmc += ['-DVERIF_WORLD_STEP']; j.roots = ['^@thread_entry_', '^@K_', '^@world_']; j.unwinding_assertions = False
        J.append(j)
    if not q: ch('chan_1p1c', 2, 4, ['NPROD=1', 'KSEND=1', 'NRECV=1'], desc='RingChannel: 1 send, 1 recv on different vCPUs (consumer idle registration vs. producer idler check)', timeout=3000, mem_gb=16)
    if not q: ch('chan_full_1p1c', 2, 4, ['NPROD=1', 'KSEND=1', 'NRECV=1', 'PREFILL=2', 'PROCESS_YIELD'], desc='RingChannel: full ring, 1 blocked send, 1 recv that then processes the element (sender notification)', timeout=3000, mem_gb=16)
    if not q: ch('chan_burst_1p1c', 2, 4, ['NPROD=1', 'KSEND=3', 'NRECV=1', 'PROCESS_YIELD'], desc='RingChannel capacity 2: a burst of 3 sends against a consumer in its slow path (the third send parks; sender notification after a slow-path pop)', timeout=4000, mem_gb=20)
    return J
