// C07 (ring queues, OS-thread level): every element whose push succeeded is popped exactly once, nothing else is ever
// returned, per-producer order is kept, the queue never holds more than its capacity.
// Real code: common/lockfree_queue.h (LockfreeMPMCRingQueue / LockfreeBatchMPMCRingQueue / LockfreeSPSCRingQueue),
// executed as sequentialised threads that may be pre-empted before every atomic operation (bounded number of execution slices, SC).
#include "verif_h.h"
#include "nolog.h"
#define protected public
#define private public
#include <photon/common/lockfree_queue.h>
#undef protected
#undef private

#ifndef QCAP
#define QCAP 2
#endif
#ifndef NP
#define NP 2
#endif
#ifndef NC
#define NC 1
#endif
#ifndef KP
#define KP 1          // pushes per producer
#endif
#ifndef KC
#define KC 2          // pop attempts per consumer
#endif
#if QKIND == 0
typedef LockfreeMPMCRingQueue<uint64_t, QCAP> Q;
#elif QKIND == 1
typedef LockfreeBatchMPMCRingQueue<uint64_t, QCAP> Q;
#else
typedef LockfreeSPSCRingQueue<uint64_t, QCAP> Q;
#endif
static Raw<Q> q;
static volatile uint8_t pushed_ok[NP][KP];   // 1 = push returned true, 2 = returned false
static volatile uint8_t got[NP][KP];         // times this element was returned by a pop
static volatile int last_seen[NC + 1][NP];   // per consumer: next expected sequence number of each producer
#define TAG(p, s) ((uint64_t)0xA000 + (p) * 16 + (s))

static void account(int consumer, uint64_t v)
{
    bool known = false;
    for (int p = 0; p < NP; p++) for (int s = 0; s < KP; s++) if (v == TAG(p, s)) {
        known = true;
        CHECK(pushed_ok[p][s] != 2, "a popped value was pushed (its push did not report failure)");
        got[p][s] = got[p][s] + 1;
        CHECK(got[p][s] == 1, "an element is returned by at most one pop");
        CHECK(s >= last_seen[consumer][p], "elements of one producer are received in the order it sent them");
        last_seen[consumer][p] = s + 1;
    }
    CHECK(known, "no value is returned that was never pushed");
}
static inline __attribute__((always_inline)) void producer(long p)
{
    for (int s = 0; s < KP; s++) {
#if QKIND == 1 && defined(BATCH)
        uint64_t v[2] = {TAG(p, 0), TAG(p, 1)};
        size_t n = q.v.push_batch(v, 2);
        CHECK(n <= 2, "push_batch returns at most the requested count");
        pushed_ok[p][0] = n >= 1 ? 1 : 2; pushed_ok[p][1] = n >= 2 ? 1 : 2;
        break;
#else
        bool ok = q.v.push(TAG(p, s));
        pushed_ok[p][s] = ok ? 1 : 2;
#endif
    }
}
static inline __attribute__((always_inline)) void consumer(long c)
{
    for (int k = 0; k < KC; k++) {
        uint64_t x = 0;
        if (q.v.pop(x)) account((int)c, x);
    }
}
#define ROLE(k) do { if ((k) < NP) producer(k); else consumer((k) - NP); } while (0)
extern "C" {
void thread_entry_0() { ROLE(0); }
void thread_entry_1() { ROLE(1); }
#if NP + NC > 2
void thread_entry_2() { ROLE(2); }
#endif
#if NP + NC > 3
void thread_entry_3() { ROLE(3); }
#endif
NOINL void world_init()
{
    Q* Qp = new (&q.v) Q;
    // arbitrary valid start state: head == tail == X (any 64-bit value, so index wrap-around is covered),
    // slot marks consistent with "every slot was last read one turn ago" (valid-state assumption, listed)
    uint64_t X = nondet_u64();
#ifdef WRAP
    ASSUME(X >= (uint64_t)-2);
#endif
    Qp->head.store(X); Qp->tail.store(X);
#if QKIND == 0
    for (uint64_t i = 0; i < Qp->capacity; i++) { uint64_t pos = X + i; Qp->slots[Qp->idx(pos)].mark.store(Qp->last_turn_read(pos)); }
#elif QKIND == 1
    Qp->write_head.store(X); Qp->read_tail.store(X);
#endif
}
NOINL void world_final(uint32_t all_done, uint32_t stuck)
{
    if (!all_done) return;
    Q* Qp = &q.v;
    CHECK(Qp->read_available() <= Qp->capacity, "the queue never holds more than its capacity");
    // drain what is left and balance the books
    int left = 0;
    for (int k = 0; k < NP * KP; k++) { uint64_t x = 0; if (Qp->pop(x)) { account(NC, x); left++; } }
    uint64_t y; CHECK(!Qp->pop(y), "after draining the queue is empty");
    for (int p = 0; p < NP; p++) for (int s = 0; s < KP; s++) {
        if (pushed_ok[p][s] == 1) CHECK(got[p][s] == 1, "every successfully pushed element is popped exactly once");
        else CHECK(got[p][s] == 0, "an element whose push failed is never returned");
    }
    if (left > 0) WITNESS("some elements were still queued at the end");
    if (left == 0 && pushed_ok[0][0] == 1) WITNESS("everything pushed was consumed by the consumers");
}
}
