// C07 (RingChannel notification protocol): a consumer blocked in recv() is notified when an element becomes available (the queue is never
// left non-empty with every consumer asleep until its periodic timed re-check), and a producer blocked on a full queue is notified when
// space appears.
// Real code: common/lockfree_queue.h RingChannel<LockfreeMPMCRingQueue<uint64_t, CAP>>::send<PhotonPause> / recv, SendBackoff::push_backoff /
// notify_senders, the real ring queue, the real inline semaphore::signal / wait; semaphore wait / try_resume and thread_yield are the contracts
// of rt/ksync.h.  Threads may be pre-empted before every atomic operation and before every blocking call (producer and consumer on different
// vCPUs / OS threads), bounded number of execution slices.
// The property is a state invariant, judged between any two execution slices (world_step) and at the end of the run:
//   no producer inside send(), queue non-empty, a consumer asleep on queue_sem with no token pending and not yet resumed      => lost notification
//   no consumer inside recv(), queue not full, a producer asleep on send_sem with no token pending and not yet resumed         => lost notification
#include "verif_h.h"
#include "nolog.h"
#include "ksync.h"
#define protected public
#define private public
#include <photon/common/lockfree_queue.h>
#undef protected
#undef private
using namespace photon; using namespace photon::common;
#ifndef QCAP
#define QCAP 2
#endif
#ifndef NPROD
#define NPROD 1
#endif
#ifndef KSEND
#define KSEND 1
#endif
typedef RingChannel<LockfreeMPMCRingQueue<uint64_t, QCAP>> Ch;
static Raw<Ch> C;
static int in_send, in_recv, sent, received;
#define TAG(p, s) ((uint64_t)0xA000 + (p) * 16 + (s))

template<int ME_> static inline __attribute__((always_inline)) void producer()
{
    for (int s = 0; s < KSEND; s++) {
        in_send++;
        C.v.template send<PhotonPause>(TAG(ME_, s));
        sent++; in_send--;
    }
}
static inline __attribute__((always_inline)) void consumer()
{
    for (int s = 0; s < NRECV; s++) {
        in_recv++;
        uint64_t v = C.v.recv(0, 0);               // no busy-yield phase: after one failed pop + yield it registers as idle and parks on the semaphore
        received++; in_recv--;
        CHECK(v >= TAG(0, 0) && v <= TAG(NPROD - 1, KSEND - 1), "recv returns a value that was sent");
#ifdef PROCESS_YIELD
        thread_yield();                            // the consumer processes the element before it calls recv() again
#endif
    }
}
static inline bool asleep_on(int i, semaphore* s) { return K_kind[i] == KW_SEM && K_obj[i] == (void*)s; }
extern "C" {
#if NPROD == 1
void thread_entry_0() { producer<0>(); }
void thread_entry_1() { consumer(); }
#define CONSUMER 1
#else
void thread_entry_0() { producer<0>(); }
void thread_entry_1() { producer<1>(); }
void thread_entry_2() { consumer(); }
#define CONSUMER 2
#endif
NOINL void world_init()
{
    new (&C.v) Ch(/*max_yield_turn*/ 0, /*max_yield_usec*/ 0);
#ifdef PREFILL
    for (int i = 0; i < PREFILL; i++) { bool ok = C.v.push(TAG(0, 0)); ASSUME(ok); }      // the ring already holds elements (a burst before the scenario starts)
#endif
}
NOINL void world_step()
{
    size_t n = C.v.read_available();
    if (in_send == 0 && asleep_on(CONSUMER, &C.v.queue_sem))
        CHECK(!(n > 0 && C.v.queue_sem.count() == 0), "consumer notified: no consumer sleeps on an unsignalled semaphore while the queue holds an element and no send() is in progress");
    if (in_recv == 0) {
#define PS(i) if (i < NPROD && asleep_on(i, &C.v.send_sem)) CHECK(!(n < QCAP && C.v.send_sem.count() == 0), "producer notified: no producer sleeps on an unsignalled semaphore while the queue has space and no recv() is in progress");
        PS(0) PS(1)
#undef PS
    }
}
NOINL void world_final(uint32_t all_done, uint32_t stuck)
{
    world_step();
    if (all_done) {
        CHECK(sent == NPROD * KSEND && received == NRECV, "everybody finished its operations");
        WITNESS("all sends and receives completed");
    }
#ifndef PREFILL
    if (asleep_on(CONSUMER, &C.v.queue_sem)) WITNESS("the run can end with the consumer parked on the semaphore");
#else
    if (asleep_on(0, &C.v.send_sem)) WITNESS("the run can end with a producer parked on the send semaphore");
#endif
}
}
