import os, importlib.util
from vlib import Job
_spec = importlib.util.spec_from_file_location('c01jobs', os.path.join(os.path.dirname(__file__), '..', 'C01', 'jobs.py'))
_c01 = importlib.util.module_from_spec(_spec); _spec.loader.exec_module(_c01)
ksjob = _c01.ksjob

META = dict(
    bounds='sequential: every reachable set of <= NHELD (2 quick / 3 thorough) held ranges built by the real try_lock_wait2 from symbolic 64-bit (offset,length) pairs, '
           'then one of try_lock_wait2 / try_lock_wait / adjust_range / unlock(handle) / unlock(range) with symbolic 64-bit arguments, then a symbolic probe request',
    outside='more than NHELD+1 simultaneously held ranges; the red-black rebalancing of libstdc++ (out-of-line, replaced by an unbalanced BST stand-in with the same ordering contract)',
    assumptions=['std::set out-of-line helpers (_Rb_tree_insert_and_rebalance, _increment, _decrement, _rebalance_for_erase) replaced by unbalanced-BST stand-ins with the same node layout',
                 'sequential harness: condition_variable::wait returns immediately (refusal observed through the return value); wake-up is checked by the concurrent harness',
                 'operator new never fails'],
)
SRC = 'C18/h_rangelock.cpp'
SH = ['libc.c', 'rbtree.c', 'sync_seq.c']

def jobs(tier):
    q = tier == 'quick'
    n = 2 if q else 3
    names = ['lock2', 'lock1', 'adjust', 'unlock_h', 'unlock_r']
    J = []
    for op in range(5):
        D = ['NHELD=%d' % n, 'OP=%d' % op]
        probe = True
        if q and op == 4: D.append('NOPROBE'); probe = False     # unlock-by-range followed by a probe takes ~8 min: thorough tier only
        if q and op == 1: continue                               # try_lock_wait (by-reference variant) shares its logic with try_lock_wait2: thorough tier only (keeps the quick tier under ~6 min)
        J.append(Job('seq_%s_%dheld' % (names[op], n), SRC, 'harness_rangelock', defines=D, unwind=n + 2, shims=SH, tv=True, tv_vectors=400,
                     small=[0, 1, 2, 3, 4, 8, 2**64 - 1, 2**64 - 2], timeout=900 if q else 7000, mem_gb=16,
                     desc='%s from every reachable state of <= %d held ranges%s' % (names[op], n, ', then a probe' if probe else ''),
                     bounds='64-bit symbolic ranges, %d held + 1 op%s' % (n, ' + 1 probe' if probe else '')))
    # wake-up half: waiters on a conflicting range proceed after unlock (no lost wake-up = no deadlock at the end of the run)
    J.append(ksjob('wake_2t', 'C18/h_wake.cpp', 2, 6, ['FORCE_CONFLICT'], desc='2 lockers with overlapping ranges: the second waits and is woken by the unlock', shims=['rbtree.c'], timeout=900, unwind=4))
    if os.environ.get('VERIF_EXPERIMENTAL'): J.append(ksjob('wake_3t', 'C18/h_wake.cpp', 3, 10, ['FORCE_CONFLICT'], desc='3 lockers, symbolic ranges (0 and 1 overlap)', shims=['rbtree.c'], timeout=5000, unwind=5, mem_gb=30))
    return J
