// C18 (sequential part): ranges held through a RangeLock are pairwise disjoint for lock / try-lock-and-wait / adjust / unlock.
// Real code: common/range-lock.h (RangeLock, range_t::operator<, Range), std::set header code over the BST stand-ins (rt/rbtree.c),
// real photon::spinlock m_lock; the blocking condition_variable::wait / notify_all are external stubs here (single thread:
// "would block" is observed as the refused return value).  The wake-up half of C18 is the concurrent harness.
#include "verif_h.h"
#define protected public
#define private public
#include <photon/common/range-lock.h>
#undef protected
#undef private

#ifdef VERIF_NATIVE_CPP
// native replay / translation validation build: same sequential stand-ins as rt/sync_seq.c
namespace photon {
int condition_variable::wait(spinlock*, Timeout) { return 0; }
int waitq::resume_all(int) { return 0; }
}
#endif

#ifndef NHELD
#define NHELD 2
#endif

static inline uint64_t sat_end(uint64_t o, uint64_t l) { return o + l < o ? UINT64_MAX : o + l; }
// conflict relation: half-open intervals with saturating end; an empty range counts as a point strictly inside the other
static inline bool conflicts(uint64_t o1, uint64_t l1, uint64_t o2, uint64_t l2) { return o1 < sat_end(o2, l2) && o2 < sat_end(o1, l1); }
static inline bool overlap_nonempty(uint64_t o1, uint64_t l1, uint64_t o2, uint64_t l2) { return l1 > 0 && l2 > 0 && conflicts(o1, l1, o2, l2); }

struct Held { bool live; uint64_t off, len; RangeLock::LockHandle* h; };
static Held held[NHELD + 1];
static Raw<RangeLock> RLs;

static bool model_conflict(uint64_t o, uint64_t l, int skip = -1)
{
    for (int i = 0; i < NHELD + 1; i++) if (held[i].live && i != skip && conflicts(held[i].off, held[i].len, o, l)) return true;
    return false;
}
static bool nonempty(uint64_t o, uint64_t l) { return sat_end(o, l) > o; }
// a request overlaps (shares at least one byte with) a held range
static bool model_overlap(uint64_t o, uint64_t l, int skip = -1)
{
    for (int i = 0; i < NHELD + 1; i++) if (held[i].live && i != skip && nonempty(o, l) && nonempty(held[i].off, held[i].len) && conflicts(held[i].off, held[i].len, o, l)) return true;
    return false;
}
// completeness ("granted when nothing conflicts") is claimed when no empty range is involved: empty ranges hold no byte,
// and RangeLock's ordering treats them as points, which may conservatively refuse
static bool all_nonempty()
{
    for (int i = 0; i < NHELD + 1; i++) if (held[i].live && !nonempty(held[i].off, held[i].len)) return false;
    return true;
}
static void check_grant(bool granted, uint64_t o, uint64_t l, const char*)
{
    if (granted) CHECK(!model_overlap(o, l), "a granted range shares no byte with any held range");
    if (all_nonempty() && nonempty(o, l) && !model_conflict(o, l)) CHECK(granted, "a request that conflicts with no held range is granted");
}
static void check_disjoint()
{
    for (int i = 0; i < NHELD + 1; i++) for (int j = i + 1; j < NHELD + 1; j++)
        if (held[i].live && held[j].live)
            CHECK(!overlap_nonempty(held[i].off, held[i].len, held[j].off, held[j].len), "held ranges are pairwise disjoint");
}

extern "C" {
void harness_rangelock()
{
    RangeLock& RL = *new (&RLs.v) RangeLock;
    // build the pre-state with the real lock from symbolic requests (every reachable set of <= NHELD held ranges)
    for (int i = 0; i < NHELD; i++) {
        uint64_t o = nondet_u64(), l = nondet_u64();
        auto h = RL.try_lock_wait2(o, l);
        check_grant(h != nullptr, o, l, "");
        if (h) { held[i].live = true; held[i].off = o; held[i].len = l; held[i].h = h; }
        check_disjoint();
    }
#ifdef OP
    uint8_t op = OP;
#else
    uint8_t op = nondet_u8(); ASSUME(op < 5);
#endif
    uint64_t o = nondet_u64(), l = nondet_u64();
    uint8_t k = nondet_u8(); ASSUME(k < NHELD);
    if (op == 0) {                       // handle-returning lock
        auto h = RL.try_lock_wait2(o, l);
        check_grant(h != nullptr, o, l, "");
        if (h) { held[NHELD] = Held{true, o, l, h}; WITNESS("third range granted"); } else WITNESS("request refused");
    } else if (op == 1) {                // by-reference variant reporting the conflict
        uint64_t ro = o, rl = l;
        int r = RL.try_lock_wait(ro, rl);
        check_grant(r == 0, o, l, "");
        if (r == 0) { CHECK(ro == o && rl == l, "granted request is left unchanged"); held[NHELD] = Held{true, o, l, nullptr}; }
        else {
            CHECK(r == -1, "refusal is -1");
            // the reported sub-range lies inside the request's span and inside a held range
            bool inside_held = false;
            for (int i = 0; i < NHELD; i++) if (held[i].live && ro == held[i].off && sat_end(ro, rl) <= sat_end(held[i].off, held[i].len)) inside_held = true;
            CHECK(inside_held, "reported conflict starts at a held range and stays inside it");
            CHECK(sat_end(ro, rl) <= sat_end(o, l), "reported conflict ends inside the request");
            WITNESS("try_lock_wait refused with a conflict report");
        }
    } else if (op == 2) {                // adjust a held range
        ASSUME(held[k].live);
        int r = RL.adjust_range(held[k].h, o, l);
        if (r == 0) { CHECK(!model_overlap(o, l, k), "a successful adjustment shares no byte with any other held range"); held[k].off = o; held[k].len = l; WITNESS("adjust succeeded"); }
        else { CHECK(r == -1, "refusal is -1"); WITNESS("adjust refused"); }
        CHECK(RL.adjust_range(nullptr, o, l) == -1, "null handle is refused");
    } else if (op == 3) {                // unlock by handle
        ASSUME(held[k].live);
        RL.unlock(held[k].h); held[k].live = false;
        WITNESS("unlock by handle");
    } else {                             // unlock by range: drops every held range contained in [o, o+l)
        RL.unlock(o, l);
        for (int i = 0; i < NHELD; i++)
            if (held[i].live && o <= held[i].off && sat_end(o, l) >= sat_end(held[i].off, held[i].len) && conflicts(held[i].off, held[i].len, o, l))
                held[i].live = false;
        WITNESS("unlock by range");
    }
    check_disjoint();
    // the structure agrees with the model: a probe request is granted exactly when the model has no conflict
#ifdef NOPROBE
    return;
#endif
    uint64_t po = nondet_u64(), pl = nondet_u64();
    auto ph = RL.try_lock_wait2(po, pl);
    check_grant(ph != nullptr, po, pl, "");
    if (ph) WITNESS("probe granted"); else WITNESS("probe refused");
}
}
