// C18 (wake-up half): a thread waiting on a conflicting range is woken when that range is unlocked and acquires its own
// range once no conflicting holder remains.
// Real code: RangeLock::lock / try_lock_wait2 / unlock(handle), Range::~Range (notify_all on erase), std::set header code over the
// BST stand-ins; the real photon::spinlock m_lock; condition_variable wait(spinlock)/notify_all are contracts (rt/ksync.h).
#include "verif_h.h"
#include "nolog.h"
#include "ksync.h"
#define protected public
#define private public
#include <photon/common/range-lock.h>
#undef protected
#undef private
using namespace photon;

static Raw<RangeLock> RL;
// Typed per-thread node storage for the std::set inside RangeLock: each locker owns at most one tree node at a time, and the thread id is a
// constant inside each scheduler branch, so every allocation is a concrete, typed static object (struct-holding malloc blocks reached through
// merged pointers turn every node access into a byte-level operation on the heap object).
typedef std::_Rb_tree_node<RangeLock::Range> NodeT;
static Raw<NodeT> node0, node1, node2, node3; static bool node_used[4];
void* operator new(size_t n)
{
    int me = (int)verif_get_tid();
    CHECK(n == sizeof(NodeT), "harness: the only allocation is a tree node");
#define PN(i) if (me == i) { CHECK(!node_used[i], "harness bound: a locker owns at most one tree node at a time"); node_used[i] = true; return &node##i.v; }
    K_EACH(PN)
#undef PN
    return nullptr;
}
static inline void node_free(void* p)
{
    if (!p) return;
#define PF(i) if (p == (void*)&node##i.v) { CHECK(node_used[i], "harness: a node is freed once"); node_used[i] = false; return; }
    K_EACH(PF)
#undef PF
    CHECK(false, "harness: delete of a block that was not allocated");
}
void operator delete(void* p) noexcept { node_free(p); }
void operator delete(void* p, size_t) noexcept { node_free(p); }
static uint64_t off[KN], len[KN]; static bool inside[KN]; static int acquired[KN];
static inline uint64_t sat_end(uint64_t o, uint64_t l) { return o + l < o ? UINT64_MAX : o + l; }
static inline bool overlap(int a, int b) { return len[a] > 0 && len[b] > 0 && off[a] < sat_end(off[b], len[b]) && off[b] < sat_end(off[a], len[a]); }

template<int ME_> static inline __attribute__((always_inline)) void worker()
{
    auto h = RL.v.lock(off[ME_], len[ME_]);          // blocks (cv wait) while a conflicting range is held, then retries
    CHECK(h != nullptr, "lock() returns a handle");
    inside[ME_] = true; acquired[ME_]++;
    for (int j = 0; j < KN; j++) if (j != ME_ && inside[j]) CHECK(!overlap(ME_, j), "ranges held at the same time never overlap");
    thread_yield();                                  // hold the range while others run
    inside[ME_] = false;
    RL.v.unlock(h);
}
extern "C" {
void thread_entry_0() { worker<0>(); }
void thread_entry_1() { worker<1>(); }
#if NT > 2
void thread_entry_2() { worker<2>(); }
#endif
NOINL void world_init()
{
    new (&RL.v) RangeLock;
    for (int i = 0; i < KN; i++) { off[i] = nondet_u8(); len[i] = nondet_u8(); ASSUME(len[i] >= 1); }
#ifdef FORCE_CONFLICT
    ASSUME(overlap(0, 1));
#endif
}
NOINL void world_final(uint32_t all_done, uint32_t stuck)
{
    if (all_done) {
        for (int i = 0; i < KN; i++) CHECK(acquired[i] == 1, "every locker eventually acquired its range exactly once");
        CHECK(RL.v.m_index.empty(), "quiescence: no range left in the lock");
        WITNESS("all lockers acquired and released (with a conflict forcing a wait)");
    }
}
}
