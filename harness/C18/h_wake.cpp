// C18 (wake-up half): a thread waiting on a conflicting range is woken when that range is unlocked and acquires its own
// range once no conflicting holder remains.
// Real code: RangeLock::lock / try_lock_wait2 / unlock(handle), Range::~Range (notify_all on erase), std::set header code over the
// BST stand-ins; the real photon::spinlock m_lock; condition_variable wait(spinlock)/notify_all are contracts (rt/ksync.h).
#include "verif_h.h"
#include "nolog.h"
#include "ksync.h"
#define protected public
#define private public
#include <photon/common/range-lock.h>
#undef protected
#undef private
using namespace photon;

static Raw<RangeLock> RL;
static uint64_t off[KN], len[KN]; static bool inside[KN]; static int acquired[KN];
static inline uint64_t sat_end(uint64_t o, uint64_t l) { return o + l < o ? UINT64_MAX : o + l; }
static inline bool overlap(int a, int b) { return len[a] > 0 && len[b] > 0 && off[a] < sat_end(off[b], len[b]) && off[b] < sat_end(off[a], len[a]); }

template<int ME_> static inline __attribute__((always_inline)) void worker()
{
    auto h = RL.v.lock(off[ME_], len[ME_]);          // blocks (cv wait) while a conflicting range is held, then retries
    CHECK(h != nullptr, "lock() returns a handle");
    inside[ME_] = true; acquired[ME_]++;
    for (int j = 0; j < KN; j++) if (j != ME_ && inside[j]) CHECK(!overlap(ME_, j), "ranges held at the same time never overlap");
    thread_yield();                                  // hold the range while others run
    inside[ME_] = false;
    RL.v.unlock(h);
}
extern "C" {
void thread_entry_0() { worker<0>(); }
void thread_entry_1() { worker<1>(); }
#if NT > 2
void thread_entry_2() { worker<2>(); }
#endif
NOINL void world_init()
{
    new (&RL.v) RangeLock;
    for (int i = 0; i < KN; i++) { off[i] = nondet_u8(); len[i] = nondet_u8(); ASSUME(len[i] >= 1); }
#ifdef FORCE_CONFLICT
    ASSUME(overlap(0, 1));
#endif
}
NOINL void world_final(uint32_t all_done, uint32_t stuck)
{
    if (all_done) {
        for (int i = 0; i < KN; i++) CHECK(acquired[i] == 1, "every locker eventually acquired its range exactly once");
        CHECK(RL.v.m_index.empty(), "quiescence: no range left in the lock");
        WITNESS("all lockers acquired and released (with a conflict forcing a wait)");
    }
}
}
