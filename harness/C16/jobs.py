from vlib import Job, REPO

META = dict(
    bounds='(a) AlignedFileAdaptor over an in-memory underlay: alignment 2 and 4, align_memory off and on, initial file size 1..16 with symbolic content, '
           'one pread / pwrite with symbolic offset < size and symbolic length 0..16 (user buffer of exactly that length, every address residue modulo the '
           'alignment when align_memory is on); thorough: two-request sequences (write-read, write-write, read-write; size 1..8, lengths 0..8) and the vectored '
           'preadv2_mutable / pwritev2_mutable with 2 segments of symbolic lengths (alignment 4, align_memory on, size 1..4 / lengths 0..4 and alignment 2, align_memory off, size 1..6 / lengths 0..6).  '
           '(b) FixedSizeLinearFile<range_split> (unit 2,3,4), FixedSizeLinearFile<range_split_power2> (unit 2,4), VariableSizeLinearFile (3 sub-files of symbolic '
           'sizes 1..3; thorough 1..4), StripeFile (stripe 2 and 4, 2 stripes per sub-file) over 3 sub-files (thorough: also 2): one pread / pwrite with symbolic '
           'offset < composite size and symbolic length 0..size+2; thorough: write-read and write-write sequences',
    outside='requests that start at or after end-of-file (assumed away: the adaptors return -1/EIO where a plain file returns 0 or extends); underlay faults and short '
            'transfers other than the end-of-file clip (the underlay is a well-behaved file); AlignedFileAdaptor preadv/pwritev/preadv2/pwritev2 const-iovec wrappers '
            '(they copy the iovec array into an IOVector and call the _mutable variants checked here); vectored I/O on the composites (VirtualFile::piov_copy fallback: '
            'allocates count+4096 bytes and calls pread/pwrite); fallocate/fiemap/fsync forwarding; sizes beyond the bounds above; more than 3 sub-files; '
            'the factory functions new_*_file (heap objects; their parameter checks - n>0, unit>0, stripe a power of two - are taken as preconditions)',
    assumptions=['request offset < current file size (the property excludes requests starting at or after end-of-file)',
                 'malloc / posix_memalign stand-ins: never fail, return a separate static object of exactly the requested size whose address is a multiple of 8, filled with '
                 'arbitrary bytes; free() stand-in checks that it is given the live block; at most one temporary block is live at a time (checked)',
                 'every static object (user buffers included) starts at an address that is a multiple of the alignment; user buffers take every residue by an offset into the object',
                 'underlay / sub-files are plain in-memory files: pread clips at end-of-file, pwrite extends, ftruncate shrinks and zero-fills; no errors',
                 'AlignedFileAdaptor::pwrite jobs run without CBMC\'s "pointer arithmetic outside object bounds" check: fs/aligned-file.cpp:118 forms (ptr + off) - begin, '
                 'whose intermediate pointer is outside the block (finding C16-pwrite-oob-intermediate-pointer, job al_pwrite_ptrarith_ub); every dereference is still checked',
                 'xfile: operator new stand-in hands std::vector typed static storage of exactly the requested size; after init() the harness stores the same sub-file '
                 'pointers again (checked equal) so that the solver knows their targets; VirtualFile / IFile / IStream default methods outside pread/pwrite/pio/fstat are '
                 'stand-ins that report being reached; variable-size linear file: every sub-file has size >= 1 (range_split_vi requires strictly ascending key points)',
                 'logging macros have empty bodies', 'NDEBUG build: assert() compiled out (as shipped)'],
)
SH = ['libc.c']
A = 'C16/h_aligned.cpp'
X = 'C16/h_xfile.cpp'
MAP = ['--map', '^@malloc$=verif_c16_malloc', '--map', '^@posix_memalign$=verif_c16_memalign', '--map', '^@free$=verif_c16_free']
# every check of the standard set except --pointer-overflow-check (see META: AlignedFileAdaptor::pwrite forms an out-of-bounds intermediate pointer)
CHECKS = ['--undefined-shift-check', '--bounds-check', '--pointer-check', '--div-by-zero-check', '--pointer-primitive-check']
NOPA = dict(nochecks=True, cbmc=CHECKS)
OPN = ['pread', 'pwrite', 'preadv2m', 'pwritev2m']


def ajob(name, al, am, fsz, rlen, ops, timeout, **kw):
    """scalar alignment-adaptor job: ops is a tuple of 1 or 2 operation codes (0 pread, 1 pwrite)"""
    cap = (fsz - 1 + len(ops) * rlen + 3) // 4 * 4
    D = ['ALIGN=%d' % al, 'AMEM=%d' % am, 'FSZ=%d' % fsz, 'RLEN=%d' % rlen, 'NOPS=%d' % len(ops)] + ['OP%d=%d' % (i + 1, o) for i, o in enumerate(ops)]
    extra = dict(tv=(am == 0))
    if 1 in ops: extra.update(NOPA)
    extra.update(kw)
    return Job(name, A, 'harness_aligned', defines=D, unwind=cap + 2, shims=SH, ir2c=MAP, timeout=timeout, tv_vectors=600, small=[0, 1, 2, 3, 4, 5, 7, 8, 9, 12, 15, 16],
               desc='AlignedFileAdaptor %s vs plain file, alignment %d, align_memory %d' % (' then '.join(OPN[o] for o in ops), al, am),
               bounds='file size 1..%d, offset < size, length 0..%d' % (fsz, rlen), **extra)


# Translation validation (tv) compares a gcc build of the generated C with a g++ build of the harness on random inputs.  With align_memory the
# adaptor's behaviour depends on buffer *addresses*, and the generated C does not carry the alignas() of the harness's static objects, so tv is
# used for the align_memory=0 jobs only (same code, the flag is a constant).

# vectored jobs: methods that are not on the path of the vectored adaptor calls become external stand-ins that report being reached
# (rt/c16_fwd.c).  They are all *candidates* for the solver's resolution of the calls made through the IOVector's allocator callbacks
# (the IOVector is updated at symbolic positions, which hides the callback targets from the solver's constant propagation).
VSTUB = ['--stub', r'^@_ZN6photon2fs15ForwardFileBaseINS0_5IFileEE\d', '--stub', r'^@_ZN6photon2fs5IFile\d', '--stub', r'^@_ZNK?7IStream\d',
         '--stub', r'^@_ZN6photon2fs18AlignedFileAdaptor(6preadvE|14preadv_mutableE|7preadv2E|7pwritevE|15pwritev_mutableE|8pwritev2E)']


def vjob(al, am, fsz, rlen, op, timeout, mem_gb=10):
    cap = (fsz - 1 + rlen + 3) // 4 * 4
    big = ['f_harness_aligned.%d' % i for i in range(16)] + ['verif_c16_malloc.0', 'verif_c16_memalign.0', 'f__ZN7MemFile9ftruncateEl.0', 'verif_memcpy_n.0',
           'verif_memmove_n.0', 'verif_memmove_n.1', 'f__ZN7MemFile2rdEPvml.0', 'f__ZN7MemFile2wrEPKvml.0']
    return Job('alv_%s_a%d_m%d' % (OPN[op], al, am), A, 'harness_aligned',
               defines=['VECTORED', 'ALIGN=%d' % al, 'AMEM=%d' % am, 'FSZ=%d' % fsz, 'RLEN=%d' % rlen, 'NOPS=1', 'OP1=%d' % op, 'NIOV=2'],
               unwind=5, unwindset=['%s:%d' % (l, cap + 2) for l in big], shims=SH + ['c16_fwd.c'], ir2c=MAP + VSTUB, timeout=timeout, mem_gb=mem_gb, tv=(am == 0), tv_vectors=600, small=[0, 1, 2, 3, 4, 5, 6],
               desc='AlignedFileAdaptor %s_mutable (2 segments) vs plain file, alignment %d, align_memory %d' % (OPN[op][:-1], al, am),
               bounds='file size 1..%d, offset < size, total length 0..%d split into 2 segments' % (fsz, rlen), **NOPA)


# xfile: the sub-file is selected by a symbolic index, so the solver's call resolution also offers XFile::pread/pwrite themselves as targets of
# (m_files[i]->*piof)(...): recursion bound 0 (the recursion unwinding assertion proves that they are never the target)
XUS = ['f__ZN6photon2fs5XFile5preadEPvml:0', 'f__ZN6photon2fs5XFile6pwriteEPKvml:0']
XMAP = ['--map', '^@_Znwm$=verif_c16_new', '--map', '^@_ZdlPv$=verif_c16_delete',
        '--stub', r'^@_ZN6photon2fs5IFile\d+p(read|write)v(2|_mutable|2_mutable)E', '--stub', r'^@_ZN7IStream\d+(read|write)v_mutableE']
XTVL = ['-include', 'nolog.h', REPO + '/fs/virtual-file.cpp', REPO + '/common/iovector.cpp']     # native build: the real base-class methods
TVU = [3, 2, 3, 2]      # translation validation for one unit size per composite kind (each costs a native g++ build)
KN = ['fixed', 'fixedp2', 'var', 'stripe']
KD = ['FixedSizeLinearFile<range_split>', 'FixedSizeLinearFile<range_split_power2>', 'VariableSizeLinearFile', 'StripeFile']


def xjob(kind, unit, nsub, ops, timeout):
    rows = 2 if kind == 3 else 1
    subcap = unit * rows; tot = nsub * subcap
    parts = nsub * rows                      # a request is split into at most this many parts
    # harness loops run over the composite (tot) / the request (tot + 2); the composer's own loops are bounded by the number of parts
    us = XUS + ['f_harness_xfile.%d:%d' % (i, tot + 4) for i in range(16)] + ['f__ZL11check_statev.0:%d' % (tot + 4)] + ['f__ZN7SubFile5preadEPvml.0:%d' % (subcap + 2), 'f__ZN7SubFile6pwriteEPKvml.0:%d' % (subcap + 2)]
    if kind == 2:   # std::vector<uint64_t> growth copies
        us += ['%s:%d' % (l, 8 * (nsub + 2) + 2) for l in ('verif_memcpy_n.0', 'verif_memmove_n.0', 'verif_memmove_n.1')]
    D = ['KIND=%d' % kind, 'UNIT=%d' % unit, 'NSUB=%d' % nsub, 'NOPS=%d' % len(ops)] + ['OP%d=%d' % (i + 1, o) for i, o in enumerate(ops)]
    return Job('x_%s_%s_u%d_n%d' % (KN[kind], '_'.join(OPN[o] for o in ops), unit, nsub), X, 'harness_xfile', defines=D, unwind=parts + 2, unwindset=us,
               shims=SH + ['c16_vfile.c'], ir2c=XMAP, timeout=timeout, tv=(unit == TVU[kind]), tv_link=XTVL,
               desc='%s %s vs flat file, %s %d, %d sub-files' % (KD[kind], ' then '.join(OPN[o] for o in ops), 'sub-file sizes 1..' if kind == 2 else 'stripe' if kind == 3 else 'unit', unit, nsub),
               bounds='composite size %s%d, offset < size, length 0..%d' % ('<= ' if kind == 2 else '', tot, tot + 2))


def jobs(tier):
    q = tier == 'quick'
    T = 900 if q else 6000
    J = []
    # ---- (a) alignment adaptor, single operation
    for al in (2, 4):
        for am in (0, 1):
            for op in (0, 1):
                J.append(ajob('al_%s_a%d_m%d' % (OPN[op], al, am), al, am, 16, 16, (op,), T))
    # the out-of-bounds intermediate pointer in AlignedFileAdaptor::pwrite, with the full check set (see META)
    J.append(ajob('al_pwrite_ptrarith_ub', 4, 0, 16, 8, (1,), T, nochecks=False, cbmc=[], tv=False, kf='C16-pwrite-oob-intermediate-pointer'))
    # ---- (b) composites, single operation
    XK = [(0, 2), (0, 3), (0, 4), (1, 2), (1, 4), (2, 3), (3, 2), (3, 4)]
    for kind, unit in XK:
        for op in (0, 1):
            J.append(xjob(kind, unit, 3, (op,), T))
    if q: return J
    # ---- thorough: 2 sub-files, larger variable sizes, sequences, vectored
    for kind, unit, nsub in ((0, 3, 2), (1, 2, 2), (2, 3, 2), (3, 2, 2), (3, 4, 2), (2, 4, 3)):
        for op in (0, 1):
            J.append(xjob(kind, unit, nsub, (op,), T))
    for kind, unit in XK:
        for ops in ((1, 0), (1, 1)):
            if (kind, unit, ops) != (3, 4, (1, 1)):      # stripe 4 x 3 sub-files, write-write: ~15 min, left out of the 30-minute tier
                J.append(xjob(kind, unit, 3, ops, T))
    for al in (2, 4):
        for am in (0, 1):
            for ops in ((1, 0), (1, 1), (0, 1)):
                J.append(ajob('al_%s_a%d_m%d' % ('_'.join(OPN[o] for o in ops), al, am), al, am, 8, 8, ops, T))
    for op in (2, 3):
        J.append(vjob(4, 1, 4, 4, op, T))
        J.append(vjob(2, 0, 6, 6, op, T))
    return J
