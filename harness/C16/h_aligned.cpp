// C16 (a): a file accessed through the alignment adaptor behaves like the plain file underneath, and every request the
// adaptor issues to the underlay has offset, length (and, with align_memory, buffer address) that are multiples of the alignment.
// Real code: fs/aligned-file.cpp (AlignedFileAdaptor, included textually), fs/range-split.h (range_split_power2),
// common/io-alloc.h (IOAlloc / AlignedAlloc callbacks), common/iovector.h + iovector.cpp (vectored variants only).
// Underlay: MemFile, a well-behaved in-memory IFile over a static byte array that checks the alignment of every request it receives.
// Oracle: a plain byte array + size (REF) that receives the same request with POSIX pread/pwrite semantics.
#include "verif_h.h"
#include "nolog.h"
#include <stdlib.h>
#include <string.h>
#include <sys/stat.h>
#include <sys/uio.h>
#ifdef VERIF_NATIVE_CPP
// native build of the same harness (translation validation / counterexample replay): the three libc allocation functions the code
// under test calls are redirected to the same stand-ins that ir2c --map selects in the solver build.  All system headers the
// sources pull in are included first, so that only the calls in the photon sources are affected.
#include <malloc.h>
#include <mm_malloc.h>
#include <immintrin.h>
#include <memory>
#include <string>
#include <vector>
#include <algorithm>
#include <utility>
#include <tuple>
#include <type_traits>
#include <cassert>
#include <cinttypes>
#include <cerrno>
#include <cstdarg>
#include <fcntl.h>
#include <sys/time.h>
#include <unistd.h>
extern "C" { void* verif_c16_malloc(uint64_t n); int verif_c16_memalign(void** out, uint64_t al, uint64_t n); void verif_c16_free(void* p); }
#define malloc(n) verif_c16_malloc(n)
#define posix_memalign(p, a, n) verif_c16_memalign(p, a, n)
#define free(p) verif_c16_free(p)
#endif
#include "common/iovector.cpp"       // the adaptor's vtable also holds the vectored variants
#include "fs/aligned-file.cpp"
using namespace photon::fs;

#ifndef ALIGN
#define ALIGN 4          // alignment of the adaptor (2 or 4)
#endif
#ifndef AMEM
#define AMEM 1           // align_memory
#endif
#ifndef FSZ
#define FSZ 16           // initial file size 1..FSZ
#endif
#ifndef RLEN
#define RLEN 16          // request length 0..RLEN
#endif
#ifndef NOPS
#define NOPS 1
#endif
#ifndef OP1
#define OP1 0            // 0 pread, 1 pwrite, 2 preadv2_mutable, 3 pwritev2_mutable
#endif
#ifndef NIOV
#define NIOV 2           // vectored: at most NIOV segments
#endif
// the file can grow to (FSZ-1) + NOPS*RLEN bytes; the adaptor may touch up to the next multiple of the alignment
#define CAP ((((FSZ - 1) + NOPS * RLEN) + 3) / 4 * 4)

// ---------------------------------------------------------------------------------------------------------------
// exact-size aligned storage handed out by the stand-ins for malloc / posix_memalign (every block is a separate
// static object whose size is exactly the requested size: touching one byte past it is an out-of-bounds access).
// Sizes requested by the adaptor are aligned_length() = multiples of ALIGN in [ALIGN, CAP].
#define PL(n) alignas(8) static uint8_t PB_##n[n];
PL(2) PL(4) PL(6) PL(8) PL(10) PL(12) PL(14) PL(16) PL(18) PL(20) PL(22) PL(24) PL(26) PL(28) PL(30) PL(32)
PL(34) PL(36) PL(38) PL(40) PL(42) PL(44) PL(46) PL(48)
static_assert(CAP <= 48, "add pools");
static int n_alloc, n_free; static uint8_t* live_block;
static uint8_t* pool_of(uint64_t n)
{
#define PS(k) if (CAP >= k && n == k) return PB_##k;
#if ALIGN == 2
    PS(2) PS(6) PS(10) PS(14) PS(18) PS(22) PS(26) PS(30) PS(34) PS(38) PS(42) PS(46)
#endif
    PS(4) PS(8) PS(12) PS(16) PS(20) PS(24) PS(28) PS(32) PS(36) PS(40) PS(44) PS(48)
    return nullptr;
}
static uint8_t* take_block(uint64_t n)
{
    uint8_t* p = pool_of(n);
    ASSUME(p != nullptr);            // unreachable: the callers CHECK the size first
    for (uint64_t i = 0; i < CAP; i++) { if (i >= n) break; p[i] = nondet_u8(); }    // fresh heap memory has arbitrary content
    live_block = p; n_alloc++;
    return p;
}
extern "C" {
// stand-ins for the libc allocation functions the code under test calls (ir2c --map)
NOINL void* verif_c16_malloc(uint64_t n)
{
    CHECK(n > 0 && n <= CAP && n % ALIGN == 0 && live_block == nullptr, "allocation request is one block of a positive multiple of the alignment within the file span");
    return take_block(n);
}
NOINL int verif_c16_memalign(void** out, uint64_t al, uint64_t n)
{
    CHECK(al == ALIGN, "posix_memalign is asked for the configured alignment");
    CHECK(n > 0 && n <= CAP && n % ALIGN == 0 && live_block == nullptr, "allocation request is one block of a positive multiple of the alignment within the file span");
    *out = take_block(n);
    return 0;
}
NOINL void verif_c16_free(void* p)
{
    CHECK(p != nullptr && p == (void*)live_block, "free() is given the block that was allocated");
    live_block = nullptr; n_free++;
}
}

// ---------------------------------------------------------------------------------------------------------------
// underlay: plain in-memory file.  Invariant: data[i] == 0 for i >= size (holes and re-extension read as zeros).
static int n_req, n_trunc, n_wr;
static inline void note_request(const void* buf, uint64_t count, int64_t offset)
{
    n_req++;
    CHECK(offset >= 0 && (uint64_t)offset % ALIGN == 0, "underlay request: offset is a multiple of the alignment");
    CHECK(count % ALIGN == 0, "underlay request: length is a multiple of the alignment");
#if AMEM
    CHECK(((uint64_t)buf) % ALIGN == 0, "underlay request: buffer address is a multiple of the alignment (align_memory)");
#endif
}
// The bytes live in a separate static array, not inside the object that holds the vtable pointer: a store at a symbolic index
// into a member array makes the solver treat the whole object (vtable pointer included) as updated, and virtual calls through it
// are then no longer resolved to one target.
static uint8_t UDATA[CAP]; static uint64_t USIZE;
struct MemFile : public IFile {
    NOINL ssize_t rd(void* buf, size_t count, off_t offset)
    {
        if ((uint64_t)offset >= USIZE) return 0;
        uint64_t n = USIZE - offset; if (n > count) n = count;
        for (uint64_t i = 0; i < CAP; i++) { if (i >= n) break; ((uint8_t*)buf)[i] = UDATA[offset + i]; }
        return n;
    }
    NOINL ssize_t wr(const void* buf, size_t count, off_t offset)
    {
        n_wr++;
        for (uint64_t i = 0; i < CAP; i++) { if (i >= count) break; UDATA[offset + i] = ((const uint8_t*)buf)[i]; }
        if (offset + count > USIZE) USIZE = offset + count;
        return count;
    }
    ssize_t pread(void* buf, size_t count, off_t offset) override { note_request(buf, count, offset); return rd(buf, count, offset); }
    ssize_t pwrite(const void* buf, size_t count, off_t offset) override { note_request(buf, count, offset); return wr(buf, count, offset); }
    // vectored requests: the request as a whole has an aligned offset and total length; with align_memory every segment's address and
    // length is aligned as well.  Served segment by segment, short as soon as a segment is short.
    static inline void note_vrequest(const struct iovec* iov, int iovcnt, off_t offset)
    {
        n_req++;
        CHECK(iovcnt >= 0 && iovcnt <= NIOV + 1, "harness bound: underlay sees at most NIOV+1 segments");
        uint64_t total = 0;
        for (int i = 0; i < NIOV + 1; i++) {
            if (i >= iovcnt) break;
            total += iov[i].iov_len;
#if AMEM
            CHECK(((uint64_t)iov[i].iov_base) % ALIGN == 0 && iov[i].iov_len % ALIGN == 0, "underlay vectored request: every segment address and length is a multiple of the alignment (align_memory)");
#endif
        }
        CHECK(offset >= 0 && (uint64_t)offset % ALIGN == 0, "underlay vectored request: offset is a multiple of the alignment");
        CHECK(total % ALIGN == 0, "underlay vectored request: total length is a multiple of the alignment");
    }
    ssize_t preadv(const struct iovec* iov, int iovcnt, off_t offset) override
    {
        note_vrequest(iov, iovcnt, offset);
        ssize_t tot = 0;
        for (int i = 0; i < NIOV + 1; i++) {
            if (i >= iovcnt) break;
            ssize_t r = rd(iov[i].iov_base, iov[i].iov_len, offset + tot); tot += r;
            if ((size_t)r < iov[i].iov_len) break;
        }
        return tot;
    }
    ssize_t pwritev(const struct iovec* iov, int iovcnt, off_t offset) override
    {
        note_vrequest(iov, iovcnt, offset);
        ssize_t tot = 0;
        for (int i = 0; i < NIOV + 1; i++) { if (i >= iovcnt) break; tot += wr(iov[i].iov_base, iov[i].iov_len, offset + tot); }
        return tot;
    }
    // the IFile defaults of these forward to preadv / pwritev; spelled out so that the defaults need not be part of the harness
    ssize_t preadv_mutable(struct iovec* iov, int n, off_t off) override { return preadv(iov, n, off); }
    ssize_t preadv2(const struct iovec* iov, int n, off_t off, int) override { return preadv(iov, n, off); }
    ssize_t preadv2_mutable(struct iovec* iov, int n, off_t off, int) override { return preadv(iov, n, off); }
    ssize_t pwritev_mutable(struct iovec* iov, int n, off_t off) override { return pwritev(iov, n, off); }
    ssize_t pwritev2(const struct iovec* iov, int n, off_t off, int) override { return pwritev(iov, n, off); }
    ssize_t pwritev2_mutable(struct iovec* iov, int n, off_t off, int) override { return pwritev(iov, n, off); }
    int fstat(struct stat* st) override { st->st_size = USIZE; return 0; }
    int ftruncate(off_t len) override
    {
        n_trunc++;
        CHECK(len >= 0 && len <= CAP, "harness bound: truncation length within the file span");
        for (uint64_t i = 0; i < CAP; i++) if (i >= (uint64_t)len && i < USIZE) UDATA[i] = 0;
        USIZE = len; return 0;
    }
    // not used by the adaptor's positional I/O
    IFileSystem* filesystem() override { return nullptr; }
    int close() override { return 0; }
    ssize_t read(void*, size_t) override { return -1; }
    ssize_t readv(const struct iovec*, int) override { return -1; }
    ssize_t write(const void*, size_t) override { return -1; }
    ssize_t writev(const struct iovec*, int) override { return -1; }
    off_t lseek(off_t, int) override { return -1; }
    int fsync() override { return 0; }
    int fdatasync() override { return 0; }
    int fchmod(mode_t) override { return 0; }
    int fchown(uid_t, gid_t) override { return 0; }
};
static Raw<MemFile> underS;
static Raw<AlignedFileAdaptor> adaptS;
static MemFile* U; static AlignedFileAdaptor* F;

// reference: plain byte array + size
static uint8_t REF[CAP]; static uint64_t RSZ;

// user buffers: the request's buffer *ends* at the end of its own static object (an overrun is out of bounds); with
// align_memory the object is chosen so that the start address takes every residue modulo the alignment.
#define UBS(k) alignas(8) static uint8_t UB##k##_0[RLEN], UB##k##_1[RLEN + 1], UB##k##_2[RLEN + 2], UB##k##_3[RLEN + 3]; \
    static inline uint8_t* ubuf##k(uint8_t sel, uint64_t cnt) { return sel == 0 ? UB##k##_0 + (RLEN - cnt) : sel == 1 ? UB##k##_1 + (RLEN + 1 - cnt) : \
                                                                 sel == 2 ? UB##k##_2 + (RLEN + 2 - cnt) : UB##k##_3 + (RLEN + 3 - cnt); }
UBS(0) UBS(1) UBS(2) UBS(3)
static inline uint8_t* ubuf(int set, uint8_t sel, uint64_t cnt) { return set == 0 ? ubuf0(sel, cnt) : set == 1 ? ubuf1(sel, cnt) : set == 2 ? ubuf2(sel, cnt) : ubuf3(sel, cnt); }
static inline uint8_t pick_sel()
{
#if AMEM
    uint8_t s = nondet_u8(); ASSUME(s < ALIGN); return s;
#else
    return 0;
#endif
}

static void check_state()
{
    CHECK(USIZE == RSZ, "file size equals the reference size");
    bool same = true;
    for (uint64_t i = 0; i < CAP; i++) { if (i >= RSZ) break; if (UDATA[i] != REF[i]) same = false; }
    CHECK(same, "file content equals the reference content");
    CHECK(n_alloc == n_free && live_block == nullptr, "every temporary block was released");
}

template<int KIND, int SET> static inline __attribute__((always_inline)) void one_op()
{
    uint8_t o8 = nondet_u8(), c8 = nondet_u8();
    ASSUME(o8 < RSZ);            // property: requests start before end-of-file
    ASSUME(c8 <= RLEN);
    const uint64_t off = o8, cnt = c8;
    n_req = 0; n_trunc = 0; n_wr = 0;
    if (KIND == 0) {             // ------------------------------------------------------------------ pread
        uint8_t* buf = ubuf(SET, pick_sel(), cnt);
        ssize_t r = F->pread(buf, cnt, off);
        uint64_t want = RSZ - off < cnt ? RSZ - off : cnt;
        CHECK(r == (ssize_t)want, "pread returns min(count, size - offset)");
        bool same = true;
        for (uint64_t i = 0; i < RLEN; i++) { if (i >= want) break; if (buf[i] != REF[off + i]) same = false; }
        CHECK(same, "pread delivers the file's bytes");
        CHECK(n_wr == 0 && n_trunc == 0, "pread does not modify the file");
        if (off % ALIGN && (off + cnt) % ALIGN && cnt > ALIGN) WITNESS("pread unaligned at both ends");
        if (want < cnt && want > 0) WITNESS("pread clipped at end of file");
        if (n_req == 1 && n_alloc == 0 && cnt > 0) WITNESS("pread forwarded directly");
    } else if (KIND == 1) {      // ------------------------------------------------------------------ pwrite
        uint8_t* buf = ubuf(SET, pick_sel(), cnt);
        for (uint64_t i = 0; i < RLEN; i++) { if (i >= cnt) break; uint8_t x = nondet_u8(); buf[i] = x; REF[off + i] = x; }
        if (off + cnt > RSZ) RSZ = off + cnt;
        ssize_t r = F->pwrite(buf, cnt, off);
        CHECK(r == (ssize_t)cnt, "pwrite returns count");
        if (off % ALIGN && (off + cnt) % ALIGN && off / ALIGN != (off + cnt) / ALIGN) WITNESS("pwrite patches first and last block");
        if (n_trunc) WITNESS("pwrite truncated the overshoot");
        if (off % ALIGN && (off + cnt) % ALIGN && off / ALIGN == (off + cnt) / ALIGN) WITNESS("pwrite inside one block");
        if (n_req == 1 && n_alloc == 0 && cnt > 0) WITNESS("pwrite forwarded directly");
    }
#ifdef VECTORED
    else {                       // -------------------------------------------------- preadv2_mutable / pwritev2_mutable
        // segmentation: NIOV segments of symbolic length (0 allowed) summing to cnt
        static iovec V[NIOV]; uint64_t left = cnt; uint8_t* seg[NIOV]; uint64_t slen[NIOV];
        for (int k = 0; k < NIOV; k++) {
            uint8_t l = (k == NIOV - 1) ? (uint8_t)left : nondet_u8(); ASSUME(l <= left);
            slen[k] = l; left -= l;
            seg[k] = ubuf(SET * NIOV + k, pick_sel(), l);
            V[k].iov_base = seg[k]; V[k].iov_len = l;
        }
        if (KIND == 2) {
            ssize_t r = F->preadv2_mutable(V, NIOV, off, 0);
            uint64_t want = RSZ - off < cnt ? RSZ - off : cnt;
            CHECK(r == (ssize_t)want, "preadv2_mutable returns min(total, size - offset)");
            bool same = true; uint64_t pos = 0;
            for (int k = 0; k < NIOV; k++)
                for (uint64_t i = 0; i < RLEN; i++) { if (i >= slen[k]) break; if (pos < want && seg[k][i] != REF[off + pos]) same = false; pos++; }
            CHECK(same, "preadv2_mutable delivers the file's bytes in segment order");
            CHECK(n_wr == 0 && n_trunc == 0, "preadv2_mutable does not modify the file");
            if (off % ALIGN && (off + cnt) % ALIGN && slen[0] > 0 && slen[NIOV - 1] > 0) WITNESS("preadv2_mutable unaligned, two segments");
            if (want < cnt && want > 0) WITNESS("preadv2_mutable clipped at end of file");
        } else {
            uint64_t pos = 0;
            for (int k = 0; k < NIOV; k++)
                for (uint64_t i = 0; i < RLEN; i++) { if (i >= slen[k]) break; uint8_t x = nondet_u8(); seg[k][i] = x; REF[off + pos] = x; pos++; }
            if (off + cnt > RSZ) RSZ = off + cnt;
            ssize_t r = F->pwritev2_mutable(V, NIOV, off, 0);
            CHECK(r == (ssize_t)cnt, "pwritev2_mutable returns the total length");
            if (off % ALIGN && (off + cnt) % ALIGN && off / ALIGN != (off + cnt) / ALIGN && slen[0] > 0 && slen[NIOV - 1] > 0) WITNESS("pwritev2_mutable patches first and last block, two segments");
            if (n_trunc) WITNESS("pwritev2_mutable truncated the overshoot");
        }
    }
#endif
    check_state();
}

extern "C" void harness_aligned()
{
    U = new (&underS.v) MemFile;
    F = new (&adaptS.v) AlignedFileAdaptor(U, ALIGN, AMEM, false, nullptr);
    uint8_t s = nondet_u8(); ASSUME(s >= 1 && s <= FSZ);
    USIZE = RSZ = s;
    for (uint64_t i = 0; i < FSZ; i++) { uint8_t x = 0; if (i < s) x = nondet_u8(); UDATA[i] = REF[i] = x; }
    for (uint64_t i = FSZ; i < CAP; i++) UDATA[i] = REF[i] = 0;
    one_op<OP1, 0>();
#if NOPS >= 2
    one_op<OP2, 1>();
    WITNESS("two operations completed");
#endif
}
