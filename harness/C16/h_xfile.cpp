// C16 (b): a file composed of sub-files by the linear (fixed unit / variable sizes) or stripe composer behaves like one flat file
// of the composite size.
// Real code: fs/xfile.cpp (XFile::pread/pwrite, FixedSizeLinearFile<range_split>/<range_split_power2>::pio,
// VariableSizeLinearFile::init/pio, StripeFile::init/pio - included textually), fs/range-split.h, fs/range-split-vi.h,
// std::vector header code.  The VirtualFile base-class methods (lseek/read/write and the vectored fallbacks) are not part of
// this harness: XFile overrides pread/pwrite, the others are external stand-ins that report being reached (rt/c16_vfile.c).
// Sub-files: SubFile, a fixed-size in-memory IFile over its own static byte array (any request that leaves [0,size) is reported).
// Oracle: one flat reference array REF[TOTAL]; the flat offset -> (sub-file, inner offset) correspondence is stated directly
// (quotient/remainder for fixed units and stripes, prefix sums for variable sizes), not through range_split.
#include "verif_h.h"
#include "nolog.h"
#include <stdlib.h>
#include <string.h>
#include <sys/stat.h>
#include <sys/uio.h>
#include "fs/xfile.cpp"
using namespace photon::fs;

#define K_FIXED 0      // FixedSizeLinearFile<range_split>
#define K_FIXED2 1     // FixedSizeLinearFile<range_split_power2>
#define K_VAR 2        // VariableSizeLinearFile
#define K_STRIPE 3     // StripeFile
#ifndef KIND
#define KIND K_FIXED
#endif
#ifndef NSUB
#define NSUB 3         // number of sub-files (2 or 3)
#endif
#ifndef UNIT
#define UNIT 3         // unit size / stripe size / largest sub-file size (variable)
#endif
#ifndef ROWS
#define ROWS 2         // stripe file: stripes per sub-file
#endif
#ifndef NOPS
#define NOPS 1
#endif
#ifndef OP1
#define OP1 0          // 0 pread, 1 pwrite
#endif
#if KIND == K_STRIPE
#define SUBCAP (UNIT * ROWS)
#else
#define SUBCAP UNIT
#endif
#define TOTMAX (NSUB * SUBCAP)
#define SPAN (NSUB >= 3 ? 3 : NSUB)      // vacuity witness: a request that touches this many sub-file parts
#ifndef RLEN
#define RLEN (TOTMAX + 2)     // request lengths 0..RLEN: up to beyond the composite size
#endif

// ------------------------------------------------------------------------------------------------------------------
// The sub-file objects hold nothing but their vtable pointer: bytes and sizes live in separate static arrays selected by the
// object's identity.  (A data pointer stored next to the vtable pointer makes the solver's points-to analysis, which does not
// separate the two fields behind the translated code's char* casts, assume that writes through it may hit the vtable.)
static uint8_t SD0[SUBCAP], SD1[SUBCAP], SD2[SUBCAP];
static uint64_t SSZ[3];
static int n_req;
struct SubFile;
static SubFile* SUB[3];
struct SubFile : public IFile {
    inline int id() const { return this == SUB[0] ? 0 : this == SUB[1] ? 1 : 2; }
    inline uint8_t* bytes() const { int k = id(); return k == 0 ? SD0 : k == 1 ? SD1 : SD2; }
    inline uint64_t fsize() const { return SSZ[id()]; }
    NOINL ssize_t pread(void* buf, size_t count, off_t offset) override
    {
        n_req++;
        CHECK(offset >= 0 && (uint64_t)offset <= fsize() && count <= fsize() - offset, "sub-file read request lies inside the sub-file");
        for (uint64_t i = 0; i < SUBCAP; i++) { if (i >= count) break; ((uint8_t*)buf)[i] = bytes()[offset + i]; }
        return count;
    }
    NOINL ssize_t pwrite(const void* buf, size_t count, off_t offset) override
    {
        n_req++;
        CHECK(offset >= 0 && (uint64_t)offset <= fsize() && count <= fsize() - offset, "sub-file write request lies inside the sub-file (no sub-file grows)");
        for (uint64_t i = 0; i < SUBCAP; i++) { if (i >= count) break; bytes()[offset + i] = ((const uint8_t*)buf)[i]; }
        return count;
    }
    int fstat(struct stat* st) override { st->st_size = fsize(); return 0; }
    ssize_t preadv(const struct iovec*, int, off_t) override { return -1; }
    ssize_t pwritev(const struct iovec*, int, off_t) override { return -1; }
    int ftruncate(off_t) override { return -1; }
    IFileSystem* filesystem() override { return nullptr; }
    int close() override { return 0; }
    ssize_t read(void*, size_t) override { return -1; }
    ssize_t readv(const struct iovec*, int) override { return -1; }
    ssize_t write(const void*, size_t) override { return -1; }
    ssize_t writev(const struct iovec*, int) override { return -1; }
    off_t lseek(off_t, int) override { return -1; }
    int fsync() override { return 0; }
    int fdatasync() override { return 0; }
    int fchmod(mode_t) override { return 0; }
    int fchown(uid_t, gid_t) override { return 0; }
};
static Raw<SubFile> subS[3];
static IFile* files[3];

#if KIND == K_FIXED
typedef FixedSizeLinearFile<range_split> Composite;
#elif KIND == K_FIXED2
typedef FixedSizeLinearFile<range_split_power2> Composite;
#elif KIND == K_VAR
typedef VariableSizeLinearFile Composite;
#else
typedef StripeFile Composite;
#endif
static Raw<Composite> compS;
static Composite* X;

// operator new / delete stand-ins (ir2c --map): std::vector's storage is typed static storage of exactly the requested size.
// A heap block would be an untyped byte array to the solver: the sub-file pointers read back from it at a symbolic index are
// then no longer known to be one of the three sub-files, and the virtual call through them is not resolved.
static IFile* VEC_FILES[NSUB];        // std::vector<IFile*> m_files: exactly NSUB entries
static uint64_t VEC_KP[NSUB + 2];     // std::vector<uint64_t> m_key_points: reserve(NSUB + 2)
static int n_new;
extern "C" {
NOINL void* verif_c16_new(uint64_t n)
{
    n_new++;
    CHECK(n == sizeof(VEC_FILES) || n == sizeof(VEC_KP), "harness: operator new is asked for the sub-file table or the key-point table");
    CHECK(n_new <= 2, "harness: each table is allocated once");
    ASSUME(n == sizeof(VEC_FILES) || n == sizeof(VEC_KP));
    return n == sizeof(VEC_FILES) ? (void*)VEC_FILES : (void*)VEC_KP;
}
NOINL void verif_c16_delete(void* p) { CHECK(p == nullptr, "harness: no table is released during the operations"); }
}
#ifdef VERIF_NATIVE_CPP
// native build of the same harness (translation validation / counterexample replay): same stand-ins
void* operator new(size_t n) { return verif_c16_new(n); }
void operator delete(void* p) noexcept { verif_c16_delete(p); }
void operator delete(void* p, size_t) noexcept { verif_c16_delete(p); }
#endif

// reference: flat array of the composite size
static uint8_t REF[TOTMAX]; static uint64_t TOTAL;
static uint64_t KP[4];       // variable sizes: prefix sums of the sub-file sizes

// the byte of the composite at flat offset x, as stored in the sub-files
static inline uint8_t* cell(uint64_t x)
{
    uint64_t k, j;
#if KIND == K_FIXED || KIND == K_FIXED2
    k = x / UNIT; j = x % UNIT;
#elif KIND == K_VAR
    k = x < KP[1] ? 0 : x < KP[2] ? 1 : 2; j = x - KP[k];
#else
    uint64_t s = x / UNIT; k = s % NSUB; j = (s / NSUB) * UNIT + x % UNIT;
#endif
    return (k == 0 ? SD0 : k == 1 ? SD1 : SD2) + j;
}

// user buffers: the request's buffer ends exactly at the end of its own static object, so an overrun is out of bounds
static uint8_t UBUF0[RLEN], UBUF1[RLEN];

static void check_state()
{
    bool same = true;
    for (uint64_t i = 0; i < TOTMAX; i++) { if (i >= TOTAL) break; if (*cell(i) != REF[i]) same = false; }
    CHECK(same, "composite content equals the flat reference content");
    struct stat st; st.st_size = -1;
    CHECK(X->fstat(&st) == 0 && (uint64_t)st.st_size == TOTAL, "composite size is the sum of the sub-file sizes");
}

template<int OP, int SET> static inline __attribute__((always_inline)) void one_op()
{
    uint8_t o8 = nondet_u8(), c8 = nondet_u8();
    ASSUME(o8 < TOTAL);          // property: requests start before end-of-file
    ASSUME(c8 <= RLEN);
    const uint64_t off = o8, cnt = c8;
    const uint64_t want = TOTAL - off < cnt ? TOTAL - off : cnt;      // clipped at the end of the fixed-size composite
    uint8_t* buf = (SET == 0 ? UBUF0 : UBUF1) + (RLEN - cnt);
    n_req = 0;
    if (OP == 0) {
        ssize_t r = X->pread(buf, cnt, off);
        CHECK(r == (ssize_t)want, "pread returns min(count, size - offset)");
        bool same = true;
        for (uint64_t i = 0; i < RLEN; i++) { if (i >= want) break; if (buf[i] != REF[off + i]) same = false; }
        CHECK(same, "pread delivers the composite's bytes in order");
        if (n_req == SPAN && off % UNIT && (off + want) % UNIT) WITNESS("pread spans min(3, NSUB) parts, unaligned at both ends");
        if (want < cnt) WITNESS("pread clipped at the end of the composite");
    } else {
        for (uint64_t i = 0; i < RLEN; i++) { if (i >= cnt) break; uint8_t x = nondet_u8(); buf[i] = x; if (i < want) REF[off + i] = x; }
        ssize_t r = X->pwrite(buf, cnt, off);
        CHECK(r == (ssize_t)want, "pwrite returns min(count, size - offset)");
        if (n_req == SPAN && off % UNIT && (off + want) % UNIT) WITNESS("pwrite spans min(3, NSUB) parts, unaligned at both ends");
        if (want < cnt) WITNESS("pwrite clipped at the end of the composite");
    }
#if KIND == K_STRIPE
    if (n_req >= 4) WITNESS("request split into four or more parts (wraps around the sub-files)");
#endif
    check_state();
}

extern "C" void harness_xfile()
{
    uint64_t total = 0;
    for (int k = 0; k < NSUB; k++) {
        SUB[k] = new (&subS[k].v) SubFile;
#if KIND == K_VAR
        uint8_t sz = nondet_u8(); ASSUME(sz >= 1 && sz <= UNIT);      // sub-file sizes 1..UNIT, independently
        SSZ[k] = sz;
#else
        SSZ[k] = SUBCAP;
#endif
        KP[k] = total; total += SSZ[k];
        files[k] = SUB[k];
    }
    KP[NSUB] = total; TOTAL = total;
    X = new (&compS.v) Composite;
#if KIND == K_FIXED || KIND == K_FIXED2
    int rc = X->init(UNIT, files, NSUB, false);
#elif KIND == K_VAR
    int rc = X->init(files, NSUB, false);
#else
    int rc = X->init(UNIT, files, NSUB, false);
#endif
    CHECK(rc == 0, "composite initialised");
    // init() copies the table with memmove, which the solver models as a byte-array copy that forgets which objects the
    // pointers refer to; the same values are stored again one by one (after checking that they are the same values).
    CHECK(X->m_files.size() == NSUB, "sub-file table has NSUB entries");
    for (int k = 0; k < NSUB; k++) { CHECK(X->m_files[k] == files[k], "sub-file table entry as given"); X->m_files[k] = SUB[k]; }
    for (uint64_t i = 0; i < TOTMAX; i++) { if (i >= TOTAL) break; uint8_t x = nondet_u8(); REF[i] = x; *cell(i) = x; }
    one_op<OP1, 0>();
#if NOPS >= 2
    one_op<OP2, 1>();
    WITNESS("two operations completed");
#endif
}
