// C10 (I/O loops): bytes moved by photon::net::{send, write, sendv, writev, sendmsg, send_n, write_n, sendv_n, writev_n,
// read, recv, readv, recvmsg, read_n, readv_n}, by two consecutive calls, and by KernelSocketStream::{read, write, recv, send, readv,
// writev} over a stub kernel stream socket are ordered, complete and exactly-once; return values / errno follow the stream contract
// (full count unless EOF / error / timeout; -1 with the errno preserved, ETIMEDOUT for a timeout; single-shot calls move 1..count bytes);
// every readiness wait carries the deadline fixed at the start of the call; the number of system calls is bounded.
// Real code: net/basic_socket.cpp + net/basic_socket.h (doio_once, doio_loop, BufStep, BufStepV and the wrappers),
// common/iovector.cpp (iovector_view::extract_front used by BufStepV), net/kernel_socket.cpp (KernelSocketStream, OP >= 50) - all
// included textually.  One operation per job (-DOP=k).
// Stub: rt/sockstub.c (the ::read/::readv/::recv/::recvmsg/::send/::sendmsg/::write/::writev system calls and the readiness
// wait), reached through a stub MasterEventEngine installed as the current vCPU's master engine.
#include "verif_h.h"
#include "nolog.h"
#include <stdlib.h>
#include "common/iovector.cpp"
#include "net/basic_socket.cpp"
#if defined(OP) && OP >= 50
#include "net/kernel_socket.cpp"
#endif

#ifndef NEL
#define NEL 3
#endif
#ifndef MLEN
#define MLEN 2
#endif
#ifndef KINTR
#define KINTR 1
#endif
#ifndef KAGAIN
#define KAGAIN 1
#endif
#define TMAX (NEL * MLEN)
#define W_SEND 0
#define W_WRITE 1
#define W_SENDV 2
#define W_WRITEV 3
#define W_SENDMSG 4
#define W_SEND_N 10
#define W_WRITE_N 11
#define W_SENDV_N 12
#define W_WRITEV_N 13
#define R_READ 20
#define R_RECV 21
#define R_READV 22
#define R_RECVMSG 23
#define R_READ_N 30
#define R_READV_N 31
#define S_WRITE_N_SEND 40       // two calls on the same stream: write_n(A) then send(B)
#define S_READ_N_RECV 41        // read_n(A) then recv(B)
// the stream object itself: net/kernel_socket.cpp KernelSocketStream (read/write/readv/writev loop until the full count, recv/send
// are single-shot; every call derives its absolute deadline once from the stream timeout)
#define K_READ 50
#define K_WRITE 51
#define K_RECV 52
#define K_SEND 53
#define K_READV 54
#define K_WRITEV 55
#define IS_KSTREAM (OP >= 50)
#define IS_SEQ (OP >= 40 && OP < 50)
#define IS_WRITE (OP < 20 || OP == S_WRITE_N_SEND || OP == K_WRITE || OP == K_SEND || OP == K_WRITEV)
#define IS_LOOP (OP >= 10 && OP < 20 || OP >= 30 && OP < 40 || OP == K_READ || OP == K_WRITE || OP == K_READV || OP == K_WRITEV)
#define IS_VEC (OP == W_SENDV || OP == W_WRITEV || OP == W_SENDMSG || OP == W_SENDV_N || OP == W_WRITEV_N || OP == R_READV || OP == R_RECVMSG || OP == R_READV_N || OP == K_READV || OP == K_WRITEV)

#define SK_FD 5
#ifdef FIXCNT
#define TFULL (FIXCNT * MLEN)       // largest total of this job
#else
#define TFULL (IS_SEQ ? 6 : TMAX)
#endif
#define FLEN (IS_VEC ? MLEN : IS_SEQ ? 3 : TMAX)     // longest single element

extern "C" {
void sk_setup(uint32_t srclen, uint32_t cap, uint32_t kintr, uint32_t kagain, uint32_t err_ok, uint64_t deadline);
uint32_t sk_get(uint32_t what);
uint32_t sk_peer_byte(uint32_t i);
uint32_t sk_src_byte(uint32_t i);
int sk_wait(int fd, uint32_t interest, uint64_t expiration);
uint32_t sk_last_wait_time();
}
enum { Q_CALLS, Q_WAITS, Q_INTR, Q_AGAIN, Q_SPIN, Q_AFTER_FAIL, Q_BADFD, Q_BADDIR, Q_BADDEADLINE, Q_LAST_ERRNO, Q_FAILED, Q_TIMEDOUT,
       Q_PEER_N, Q_SRC_POS, Q_SRC_LEN, Q_SPURIOUS_WAIT, Q_EOF_SEEN, Q_LAST_FLAGS, Q_ZERO_REQ };

// ---- the vCPU / master engine the inline photon::wait_for_fd_readable/writable reach through CURRENT ----
namespace photon { __thread thread* CURRENT; volatile uint64_t now; }
struct StubEngine : public photon::MasterEventEngine {
    int wait_for_fd(int fd, uint32_t interest, photon::Timeout timeout) override {
        int r = sk_wait(fd, interest, timeout.expiration());
        photon::now = photon::now + sk_last_wait_time();      // time passes while the thread is blocked
        return r;
    }
    ssize_t wait_and_fire_events(uint64_t) override { return 0; }
    int cancel_wait() override { return 0; }
};
static Raw<StubEngine> engine;
static Raw<photon::vcpu_base> vcpu;
static photon::partial_thread cur_thread;

// ---- exact-size storage (see harness/C14): separate static objects, so any access past the end is out of bounds ----
static iovec A1[1], A2[2], A3[3];
static iovec* iov_array(int c) { return c == 0 ? A1 + 1 : c == 1 ? A1 : c == 2 ? A2 : A3; }
#define BLK(k) static uint8_t D1_##k[1], D2_##k[2], D3_##k[3]; \
    static uint8_t* blk_##k(size_t n) { return n == 0 ? D1_##k + 1 : n == 1 ? D1_##k : n == 2 ? D2_##k : D3_##k; }
BLK(0) BLK(1) BLK(2)
static uint8_t F1[1], F2[2], F3[3], F4[4], F5[5], F6[6], F7[7], F8[8], F9[9];
static uint8_t* flatbuf(size_t n) { return n == 0 ? F1 + 1 : n == 1 ? F1 : n == 2 ? F2 : n == 3 ? F3 : n == 4 ? F4 : n == 5 ? F5 : n == 6 ? F6 : n == 7 ? F7 : n == 8 ? F8 : F9; }

// A user buffer: either one flat block of exactly T bytes or an iovec array of exactly cnt entries, each entry an exact-size block.
// `init` is the content put there before the call (the stream to write / the bytes that must survive where nothing is read).
// (the byte array `init` is kept apart from the pointers: a store at a symbolic index into a struct makes the solver re-read every
// pointer member of that struct through a byte-level update)
struct Shape { int cnt; uint8_t* bp[NEL]; size_t ln[NEL]; iovec* iov; size_t total; };
static uint8_t init_bytes[TMAX + 1];

// every symbolic input is drawn unconditionally (a fixed number of recorded inputs, see rt/sockstub.c)
static void mk_iov(Shape& s, int mincnt)
{
#ifdef FIXCNT
    const uint8_t c = FIXCNT;       // one job per element count: the iovec array is then one known exact-size object
#else
    uint8_t c = nondet_u8(); ASSUME(c <= NEL && c >= mincnt);
#endif
    uint8_t lens[NEL], bytes[TMAX];
    for (int i = 0; i < NEL; i++) { lens[i] = nondet_u8(); ASSUME(lens[i] <= MLEN && lens[i] <= 3); }
    for (int i = 0; i < TMAX; i++) bytes[i] = nondet_u8();
    s.cnt = c; s.iov = iov_array(c); size_t total = 0;
    for (int i = 0; i < NEL; i++) {
        if (i >= c) break;
        uint8_t len = lens[i];
        uint8_t* b = i == 0 ? blk_0(len) : i == 1 ? blk_1(len) : blk_2(len);
        for (int k = 0; k < MLEN; k++) { if (k >= len) break; uint8_t x = bytes[i * MLEN + k]; b[k] = x; init_bytes[total++] = x; }
        s.iov[i].iov_base = b; s.iov[i].iov_len = len; s.bp[i] = b; s.ln[i] = len;
    }
    s.total = total;
}
static void mk_flat(Shape& s)
{
    uint8_t n = nondet_u8(); ASSUME(n <= TMAX && n <= 9);
    uint8_t* b = flatbuf(n);
    for (int k = 0; k < TMAX; k++) { uint8_t x = nondet_u8(); if (k < n) { b[k] = x; init_bytes[k] = x; } }
    s.cnt = 1; s.bp[0] = b; s.ln[0] = n; s.total = n; s.iov = nullptr;
}
// two consecutive flat buffers A and B (exact-size blocks of 0..3 bytes each), used by two consecutive calls
static void mk_seq(Shape& s)
{
    uint8_t la = nondet_u8(), lb = nondet_u8(); ASSUME(la <= 3 && lb <= 3);
    uint8_t bytes[6];
    for (int i = 0; i < 6; i++) bytes[i] = nondet_u8();
    uint8_t* a = blk_0(la); uint8_t* b = blk_1(lb);
    for (int k = 0; k < 3; k++) { if (k < la) { a[k] = bytes[k]; init_bytes[k] = bytes[k]; } }
    for (int k = 0; k < 3; k++) { if (k < lb) { b[k] = bytes[3 + k]; init_bytes[la + k] = bytes[3 + k]; } }
    s.cnt = 2; s.bp[0] = a; s.ln[0] = la; s.bp[1] = b; s.ln[1] = lb; s.total = la + lb; s.iov = nullptr;
}
// current content of the user buffer, element after element (shape as it was before the call: *_n functions consume the iovec array)
static void flatten(const Shape& s, uint8_t* out)
{
    size_t n = 0;
    for (int i = 0; i < NEL; i++) {
        if (i >= s.cnt) break;
        for (size_t k = 0; k < FLEN; k++) { if (k >= s.ln[i]) break; out[n++] = s.bp[i][k]; }
    }
}

extern "C" {
void harness_doio()
{
    using namespace photon;
    // environment: current thread -> vCPU -> stub master engine; symbolic clock and absolute deadline
    vcpu.v.master_event_engine = new (&engine.v) StubEngine;
    cur_thread.vcpu = &vcpu.v;
    CURRENT = (thread*)&cur_thread;
    now = nondet_u64();
#if IS_KSTREAM
    // the stream's relative timeout (microseconds; -1 = none); the deadline every wait must carry is fixed when the call starts
    static Raw<net::KernelSocketStream> ks;
    net::KernelSocketStream* stream = new (&ks.v) net::KernelSocketStream(SK_FD);
    uint64_t rel = nondet_u64();
    stream->timeout(rel);
    uint64_t deadline = rel ? sat_add(now, rel) : 0;
#else
    uint64_t deadline = nondet_u64();
    Timeout tmo; tmo.expiration(deadline);
#endif

    static Shape s;
#if IS_VEC
    // net::readv refuses iovcnt <= 0 with EINVAL before any I/O (explicit guard in the code): outside the claim
    mk_iov(s, (OP == R_READV || OP == R_READV_N) ? 1 : 0);
#elif IS_SEQ
    mk_seq(s);
#else
    mk_flat(s);
#endif
    const size_t T = s.total;
    uint8_t srclen = nondet_u8(); ASSUME(srclen <= TMAX + 2);
    uint8_t cap = nondet_u8(); ASSUME(cap >= 1 && cap <= TMAX + 1);
    bool err_ok = nondet_bool();
    sk_setup(IS_WRITE ? 0 : srclen, cap, KINTR, KAGAIN, err_ok, deadline);

    errno = 0;
    ssize_t r;
#if OP == W_SEND
    r = net::send(SK_FD, s.bp[0], T, 0, tmo);
#elif OP == W_WRITE
    r = net::write(SK_FD, s.bp[0], T, tmo);
#elif OP == W_SENDV
    r = net::sendv(SK_FD, s.iov, s.cnt, 0, tmo);
#elif OP == W_WRITEV
    r = net::writev(SK_FD, s.iov, s.cnt, tmo);
#elif OP == W_SENDMSG
    msghdr msg = {}; msg.msg_iov = s.iov; msg.msg_iovlen = s.cnt;
    r = net::sendmsg(SK_FD, &msg, 0, tmo);
#elif OP == W_SEND_N
    r = net::send_n(SK_FD, s.bp[0], T, 0, tmo);
#elif OP == W_WRITE_N
    r = net::write_n(SK_FD, s.bp[0], T, tmo);
#elif OP == W_SENDV_N
    r = net::sendv_n(SK_FD, s.iov, s.cnt, 0, tmo);
#elif OP == W_WRITEV_N
    r = net::writev_n(SK_FD, s.iov, s.cnt, tmo);
#elif OP == R_READ
    r = net::read(SK_FD, s.bp[0], T, tmo);
#elif OP == R_RECV
    r = net::recv(SK_FD, s.bp[0], T, 0, tmo);
#elif OP == R_READV
    r = net::readv(SK_FD, s.iov, s.cnt, tmo);
#elif OP == R_RECVMSG
    msghdr msg = {}; msg.msg_iov = s.iov; msg.msg_iovlen = s.cnt;
    r = net::recvmsg(SK_FD, &msg, 0, tmo);
#elif OP == R_READ_N
    r = net::read_n(SK_FD, s.bp[0], T, tmo);
#elif OP == R_READV_N
    r = net::readv_n(SK_FD, s.iov, s.cnt, tmo);
#elif OP == K_READ
    r = stream->read(s.bp[0], T);
#elif OP == K_WRITE
    r = stream->write(s.bp[0], T);
#elif OP == K_RECV
    r = stream->recv(s.bp[0], T, 0);
#elif OP == K_SEND
    r = stream->send(s.bp[0], T, 0);
#elif OP == K_READV
    r = stream->readv(s.iov, s.cnt);
#elif OP == K_WRITEV
    r = stream->writev(s.iov, s.cnt);
#elif OP == S_WRITE_N_SEND
    ssize_t r1 = net::write_n(SK_FD, s.bp[0], s.ln[0], tmo), r2 = 0;
    if (r1 >= 0) CHECK((size_t)r1 == s.ln[0], "write_n returns the full count unless an error or timeout occurred");
    if (r1 == (ssize_t)s.ln[0]) r2 = net::send(SK_FD, s.bp[1], s.ln[1], 0, tmo);
    r = r1 < 0 ? r1 : r2 < 0 ? r2 : r1 + r2;
    if (r2 > 0 && r1 > 0) WITNESS("second call continued the stream");
#elif OP == S_READ_N_RECV
    ssize_t r1 = net::read_n(SK_FD, s.bp[0], s.ln[0], tmo), r2 = 0;
    if (r1 == (ssize_t)s.ln[0]) r2 = net::recv(SK_FD, s.bp[1], s.ln[1], 0, tmo);
    r = r1 < 0 ? r1 : r2 < 0 ? r2 : r1 + r2;
    if (r1 >= 0) CHECK((size_t)r1 == (s.ln[0] < sk_get(Q_SRC_LEN) ? s.ln[0] : sk_get(Q_SRC_LEN)), "read_n returns the full count unless the peer closed");
    if (r2 > 0 && r1 > 0) WITNESS("second call continued the stream");
#endif
    const int e = errno;
    const uint32_t calls = sk_get(Q_CALLS), waits = sk_get(Q_WAITS), nintr = sk_get(Q_INTR), nagain = sk_get(Q_AGAIN);
    const bool failed = sk_get(Q_FAILED);
    size_t moved;

#if IS_WRITE
    // ---- the peer side of the stub holds exactly a prefix of the written stream, in order, each byte once ----
    const size_t P = sk_get(Q_PEER_N);
    moved = P;
    CHECK(P <= T, "the peer never receives more bytes than were written");
    for (size_t i = 0; i < TMAX; i++) { if (i >= P || i >= T) break; CHECK(sk_peer_byte(i) == init_bytes[i], "peer-side bytes equal the written stream, in order, exactly once"); }
    if (r >= 0) CHECK((size_t)r == P, "a successful write returns exactly the number of bytes that reached the peer");
#if IS_LOOP
    if (r >= 0) CHECK((size_t)r == T, "write_n/send_n/writev_n/sendv_n return the full count unless an error or timeout occurred");
#else
    if (r >= 0) CHECK((size_t)r <= T && (r >= 1 || T == 0), "send/write move at most the requested count and at least one byte");
#endif
#else
    // ---- the user buffer holds exactly the bytes consumed from the kernel, in order; nothing consumed is lost ----
    const size_t POS = sk_get(Q_SRC_POS), L = sk_get(Q_SRC_LEN);
    moved = POS;
    uint8_t after[TMAX + 1]; flatten(s, after);
    CHECK(POS <= T, "never consumes more bytes from the socket than the buffer holds");
    for (size_t i = 0; i < TMAX; i++) {
        if (i >= T) break;
        if (i < POS) CHECK(after[i] == sk_src_byte(i), "bytes delivered to the reader equal the peer's stream, in order, exactly once");
        else CHECK(after[i] == init_bytes[i], "buffer space beyond the bytes received is left untouched");
    }
    if (r >= 0) CHECK((size_t)r == POS, "a successful read returns exactly the number of bytes consumed from the socket");
#if IS_LOOP
    if (r >= 0) CHECK((size_t)r == (T < L ? T : L), "read_n/readv_n return the full count unless the peer closed (then the bytes moved so far)");
    if (TFULL >= 1 && r >= 0 && (size_t)r < T) WITNESS("short read_n because of EOF");
#else
    if (r >= 0) CHECK((size_t)r <= T && (r >= 1 || T == 0 || L == 0), "recv/read move at most the requested count and at least one byte unless EOF");
#endif
#endif
    // ---- errors and timeouts ----
    CHECK(r >= -1, "failure is reported as -1");
    CHECK((r == -1) == failed, "-1 is returned exactly when a system call or the readiness wait failed for good");
    if (r == -1) {
        CHECK((uint32_t)e == sk_get(Q_LAST_ERRNO), "errno of the failure is preserved");
        if (sk_get(Q_TIMEDOUT)) CHECK(e == ETIMEDOUT, "a timeout is reported as ETIMEDOUT");
    }
    // ---- protocol with the kernel / engine ----
    CHECK(!sk_get(Q_AFTER_FAIL), "no system call or wait is issued after a failure or timeout was reported");
    CHECK(!sk_get(Q_SPIN), "after EAGAIN the call waits for readiness before retrying");
    CHECK(!sk_get(Q_SPURIOUS_WAIT), "waits for readiness only after EAGAIN");
    CHECK(!sk_get(Q_BADDIR), "waits for the direction it is transferring in");
    CHECK(!sk_get(Q_BADFD), "only the given descriptor is used");
    CHECK(!sk_get(Q_BADDEADLINE), "every wait carries the caller's absolute deadline (not extended by retries)");
    CHECK(waits == nagain, "one readiness wait per EAGAIN");
    CHECK(calls <= moved + nintr + nagain + (IS_SEQ ? 2 : 1), "number of system calls is bounded by bytes moved + EINTR + EAGAIN + 1 per call");
#if !IS_LOOP && !IS_SEQ
    CHECK(calls <= nintr + nagain + 1, "a single-shot call issues one system call plus retries");
#endif
    CHECK(calls >= 1, "at least one system call is issued");

    if (r == -1 && sk_get(Q_TIMEDOUT)) WITNESS("timeout");
    if (r >= 0 && nintr == KINTR && nagain == KAGAIN) WITNESS("success after EINTR and EAGAIN");
    if (r == (ssize_t)T && T == TFULL) WITNESS("full-size transfer");
    if (T == 0) WITNESS("zero-length request");
#if IS_LOOP
    if (TFULL >= 3 && r == (ssize_t)T && calls >= 3 && nintr == 0 && nagain == 0) WITNESS("resumed after partial transfers");
    if (TFULL >= 2 && r == -1 && !sk_get(Q_TIMEDOUT) && moved > 0) WITNESS("error after some bytes moved");
#else
    if (r >= 1 && (size_t)r < T) WITNESS("partial single-shot transfer");
#endif
}
}
