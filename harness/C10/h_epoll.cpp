// C10 (event-engine bookkeeping): a readiness event or a timeout for one (fd, direction) never wakes, and never loses, the waiter of
// another descriptor or of the other direction of the same descriptor.
// Real code: io/epoll.cpp (included textually): EventEngineEPoll::{add_interest, rm_interest, ctl, do_epoll_wait, wait_for_events,
// wait_and_fire_events, wait_for_fd}.
// Stubs (all in this file): the kernel's epoll instance (epoll_ctl / epoll_wait with EPOLLONESHOT disarm semantics), eventfd_read,
// usleep, photon::thread_usleep (the scheduler: lets the engine fetch and fire one batch, then reports event / timeout / interrupt),
// photon::thread_interrupt (records who was woken with which errno), ResetHandle registration.
// One step from a symbolic registered-interest state of two descriptors x two directions that satisfies the engine/kernel invariant
// (inv() below); the same invariant is asserted on the post-state, so the step is inductive.
#include "verif_h.h"
#include "nolog.h"
#include "io/epoll.cpp"
using namespace photon;

#define TABLE 4            // size of _inflight_events (descriptors 0..3; the harness uses 1 and 2)
#define ENGINE_FD 7
#define EV_FD 8
#define KBITS (EPOLLIN | EPOLLRDHUP | EPOLLOUT)

// ---------------- recording thread primitives ----------------
// threads: W[fd][dir] = the waiter registered for (fd, dir) in the initial state, X = the thread calling wait_for_fd, S = a thread
// whose pointer is left over as stale data of a direction that has no registered interest
enum { T_X = 0, T_S = 1, T_W = 2, NTH = 2 + 2 * TABLE };
static partial_thread TH[NTH];
static thread* th_ptr(int i) { return (thread*)&TH[i]; }
static int widx(int fd, int dir) { return T_W + fd * 2 + dir; }       // dir 0 = read, 1 = write
static uint8_t intr_cnt[NTH]; static int intr_err[NTH]; static uint8_t intr_unknown, intr_total;
namespace photon {
__thread thread* CURRENT;
volatile uint64_t now;
void thread_interrupt(thread* th, int error_number)
{
    intr_total++;
    if (!th) { intr_unknown = 1; return; }       // every non-null data pointer of the harness is an element of TH[]
    long i = (partial_thread*)th - TH;
    intr_cnt[i]++; intr_err[i] = error_number;
}
ResetHandle::ResetHandle() {}
ResetHandle::~ResetHandle() {}
}

// ---------------- stub kernel epoll instance ----------------
struct KFd { bool registered, armed; uint32_t mask; uint64_t data; };
static KFd K[TABLE];
static uint32_t delivered[TABLE];       // events reported for the descriptor by the epoll_wait calls of this step
static uint8_t k_bad, k_waits, k_evfd_reads;
// every symbolic choice of the step is drawn up front (fixed number of recorded inputs)
struct Script { uint32_t rev[TABLE]; bool order, evfd, evfd_first, eintr; uint8_t run_engine, sleep_outcome; int sleep_errno; };
static Script sc;

extern "C" int epoll_ctl(int epfd, int op, int fd, struct epoll_event* ev)
{
    if (epfd != ENGINE_FD || fd < 0 || fd >= TABLE) { k_bad = 1; errno = EBADF; return -1; }
    if (op == EPOLL_CTL_ADD) {
        if (K[fd].registered) { errno = EEXIST; return -1; }
        K[fd].registered = true; K[fd].armed = true; K[fd].mask = ev->events; K[fd].data = ev->data.u64; return 0;
    }
    if (op == EPOLL_CTL_MOD) {
        if (!K[fd].registered) { errno = ENOENT; return -1; }
        K[fd].armed = true; K[fd].mask = ev->events; K[fd].data = ev->data.u64; return 0;     // MOD re-arms a one-shot registration
    }
    if (op == EPOLL_CTL_DEL) {
        if (!K[fd].registered) { errno = ENOENT; return -1; }
        K[fd].registered = false; K[fd].armed = false; K[fd].mask = 0; return 0;
    }
    k_bad = 1; errno = EINVAL; return -1;
}
static int k_report(struct epoll_event* evs, int n, int fd)
{
    if (!K[fd].registered || !K[fd].armed) return n;
    // the kernel reports a non-empty subset of the requested events; EPOLLERR and EPOLLHUP are always reportable
    uint32_t rev = sc.rev[fd] & ((K[fd].mask & KBITS) | EPOLLERR | EPOLLHUP);
    if (!rev) return n;
    evs[n].events = rev; evs[n].data.u64 = K[fd].data;
    delivered[fd] |= rev;
    if (K[fd].mask & EPOLLONESHOT) K[fd].armed = false;       // one-shot: disabled (for every event) until re-armed by EPOLL_CTL_MOD
    return n + 1;
}
extern "C" int epoll_wait(int epfd, struct epoll_event* evs, int maxevents, int timeout)
{
    if (epfd != ENGINE_FD || maxevents < 3) k_bad = 1;
    if (sc.eintr && k_waits == 0) { k_waits++; errno = EINTR; return -1; }
    k_waits++;
    int n = 0;
    if (sc.evfd && sc.evfd_first) { evs[n].events = EPOLLIN; evs[n].data.u64 = EV_FD; n++; }      // the wake-up eventfd (cancel_wait)
    n = k_report(evs, n, sc.order ? 1 : 2);
    n = k_report(evs, n, sc.order ? 2 : 1);
    if (sc.evfd && !sc.evfd_first) { evs[n].events = EPOLLIN; evs[n].data.u64 = EV_FD; n++; }
    return n;
}
extern "C" int eventfd_read(int fd, eventfd_t* value) { if (fd != EV_FD) k_bad = 1; k_evfd_reads++; *value = 1; return 0; }
extern "C" int usleep(useconds_t) { return 0; }
// referenced only by init() / reset() / cancel_wait() / the destructor (through the vtable); none of them is part of a step
extern "C" int close(int) { k_bad = 1; return 0; }
extern "C" int epoll_create(int) { k_bad = 1; return -1; }
extern "C" int eventfd(unsigned int, int) { k_bad = 1; return -1; }
extern "C" int eventfd_write(int, eventfd_t) { k_bad = 1; return 0; }

// ---------------- engine under test ----------------
static Raw<EventEngineEPoll> eng;
static InFlightEvent table[TABLE];
struct VecRep { InFlightEvent *b, *e, *c; };       // libstdc++ std::vector representation: the table is a static typed array

static uint8_t usleep_calls;
namespace photon {
// The scheduler while CURRENT sleeps in wait_for_fd: other threads run; the idle loop lets the master engine fetch one batch of
// kernel events and fire them (possibly waking CURRENT with EOK); otherwise the sleep ends by timeout (0) or by another thread's
// thread_interrupt (-1, that thread's errno, which is not EOK: EOK is reserved for the engine).
int thread_usleep(Timeout)
{
    usleep_calls++;
    if (sc.run_engine) eng.v.wait_and_fire_events(0);
    if (intr_cnt[T_X]) { errno = intr_err[T_X]; return -1; }
    if (sc.sleep_outcome == 0) return 0;
    errno = sc.sleep_errno; return -1;
}
}

static uint32_t dirbit(int dir) { return dir ? EVENT_WRITE : EVENT_READ; }
static uint32_t kbits(int dir) { return dir ? (uint32_t)EPOLLOUT : (uint32_t)(EPOLLIN | EPOLLRDHUP); }
static uint32_t wakebits(int dir) { return dir ? (uint32_t)(EPOLLOUT | EPOLLERR | EPOLLHUP) : (uint32_t)(EPOLLIN | EPOLLRDHUP | EPOLLERR | EPOLLHUP); }
static void*& data_of(InFlightEvent& e, int dir) { return dir ? e.writer_data : e.reader_data; }

// engine/kernel invariant for one descriptor (one-shot interests, as the master engine registers them):
//  - the entry holds only READ/WRITE bits plus ONE_SHOT; ONE_SHOT is set whenever a direction is registered
//  - a registered direction has a non-null waiter
//  - while any direction is registered the kernel registration exists, is ARMED, is one-shot, carries the descriptor as data and
//    requests exactly the registered directions (so an event for a still-waiting direction cannot be lost)
//  - an entry with interests == 0 has no kernel registration; an entry with only ONE_SHOT left keeps a (possibly disarmed / stale)
//    kernel registration that a later add_interest re-programs with EPOLL_CTL_MOD, or has none any more (the descriptor was closed,
//    which drops it from the epoll set, and the number was re-used): add_interest then falls back from MOD/ENOENT to ADD
static bool inv(int fd)
{
    InFlightEvent& e = table[fd]; KFd& k = K[fd];
    uint32_t rw = e.interests & (EVENT_READ | EVENT_WRITE);
    if (e.interests & ~(EVENT_READ | EVENT_WRITE | ONE_SHOT)) return false;
    if (rw && !(e.interests & ONE_SHOT)) return false;
    if ((rw & EVENT_READ) && !e.reader_data) return false;
    if ((rw & EVENT_WRITE) && !e.writer_data) return false;
    if (rw) {
        uint32_t want = ((rw & EVENT_READ) ? (uint32_t)(EPOLLIN | EPOLLRDHUP) : 0u) | ((rw & EVENT_WRITE) ? (uint32_t)EPOLLOUT : 0u) | (uint32_t)EPOLLONESHOT;
        return k.registered && k.armed && k.mask == want && k.data == (uint64_t)fd;
    }
    if (e.interests == 0 || !k.registered) return !k.registered;      // (ONE_SHOT left, no kernel registration: the descriptor was closed and re-created)
    return k.data == (uint64_t)fd && (k.mask & EPOLLONESHOT) && !(k.mask & ~(uint32_t)(KBITS | EPOLLONESHOT));
}

// symbolic initial state of one descriptor
static void mk_fd(int fd, uint8_t st, uint32_t stale_mask, bool stale_armed, bool stale_r, bool stale_w)
{
    InFlightEvent& e = table[fd]; KFd& k = K[fd];
    ASSUME(st <= 5);
    bool r = (st == 2 || st == 4), w = (st == 3 || st == 4);
    e.interests = (r ? EVENT_READ : 0) | (w ? EVENT_WRITE : 0) | (st ? ONE_SHOT : 0);
    // data of a direction without registered interest is null or a left-over pointer
    e.reader_data = r ? th_ptr(widx(fd, 0)) : stale_r ? th_ptr(T_S) : nullptr;
    e.writer_data = w ? th_ptr(widx(fd, 1)) : stale_w ? th_ptr(T_S) : nullptr;
    e.error_data = nullptr;
    k.data = fd;
    if (st == 0 || st == 5) { k.registered = false; k.armed = false; k.mask = 0; }
    else if (st == 1) { k.registered = true; k.armed = stale_armed; k.mask = (stale_mask & KBITS) | EPOLLONESHOT; }
    else { k.registered = true; k.armed = true; k.mask = (r ? (EPOLLIN | EPOLLRDHUP) : 0) | (w ? EPOLLOUT : 0) | EPOLLONESHOT; }
}

// snapshot of the initial state (scalars and pointers in separate arrays: no struct copies next to pointer members)
static uint32_t pre_interests[TABLE], pre_kmask[TABLE]; static void* pre_data[TABLE][2]; static bool pre_kreg[TABLE], pre_karmed[TABLE];

// what must hold for a waiter that was registered for (fd, dir) before the step and is not the subject of the step
static void check_bystander(int fd, int dir)
{
    InFlightEvent& e = table[fd];
    int t = widx(fd, dir);
    bool hit = (delivered[fd] & wakebits(dir)) != 0;      // the kernel reported an event that concerns this direction
    if (hit) {
        CHECK(intr_cnt[t] == 1 && intr_err[t] == EOK, "a waiter whose event was reported is woken exactly once, with EOK");
        CHECK(!(e.interests & dirbit(dir)) && data_of(e, dir) == nullptr, "a fired one-shot interest is removed");
    } else {
        CHECK(intr_cnt[t] == 0, "a waiter is not woken by an event or timeout of another descriptor or direction");
        CHECK((e.interests & dirbit(dir)) && data_of(e, dir) == pre_data[fd][dir], "an unrelated waiter stays registered");
        CHECK(K[fd].registered && K[fd].armed && (K[fd].mask & kbits(dir)) == kbits(dir), "the kernel stays armed for an unrelated waiter (its event cannot be lost)");
    }
}

extern "C" {
void harness_epoll()
{
    // ---- symbolic inputs (drawn unconditionally) ----
    uint8_t st1 = nondet_u8(), st2 = nondet_u8();
    uint32_t sm1 = nondet_u32(), sm2 = nondet_u32();
    bool sa1 = nondet_bool(), sa2 = nondet_bool(), sr1 = nondet_bool(), sw1 = nondet_bool(), sr2 = nondet_bool(), sw2 = nondet_bool();
    sc.rev[1] = nondet_u32(); sc.rev[2] = nondet_u32();
    sc.order = nondet_bool(); sc.evfd = nondet_bool(); sc.evfd_first = nondet_bool(); sc.eintr = nondet_bool();
    sc.run_engine = nondet_bool(); sc.sleep_outcome = nondet_bool(); sc.sleep_errno = nondet_u8();
    uint8_t f8 = nondet_u8(), d8 = nondet_u8();
    ASSUME(sc.sleep_errno != EOK);
    ASSUME(f8 == 1 || f8 == 2); ASSUME(d8 <= 1);
    const int f = f8, d = d8, other = 3 - f;

    // ---- engine with its descriptor table in a static typed array; epoll / event descriptors as after init() ----
    new (&eng.v) EventEngineEPoll;
    VecRep* rep = (VecRep*)&eng.v._inflight_events;
    rep->b = table; rep->e = table + TABLE; rep->c = table + TABLE;
    eng.v._engine_fd = ENGINE_FD; eng.v._evfd = EV_FD; eng.v._events_remain = 0;
    CURRENT = th_ptr(T_X);
    mk_fd(1, st1, sm1, sa1, sr1, sw1);
    mk_fd(2, st2, sm2, sa2, sr2, sw2);
    ASSUME(inv(1) && inv(2));        // holds by construction; stated so that pre- and post-condition are the same predicate
    for (int i = 1; i <= 2; i++) {
        pre_interests[i] = table[i].interests; pre_data[i][0] = table[i].reader_data; pre_data[i][1] = table[i].writer_data;
        pre_kreg[i] = K[i].registered; pre_karmed[i] = K[i].armed; pre_kmask[i] = K[i].mask;
    }
    errno = 0;

#if OP == 0
    // ---- the idle loop fetches one batch and fires it ----
    ssize_t n = eng.v.wait_and_fire_events(nondet_u64());
    CHECK(n == intr_total, "wait_and_fire_events returns the number of waiters it woke");
    for (int fd = 1; fd <= 2; fd++)
        for (int dir = 0; dir < 2; dir++)
            if (pre_interests[fd] & dirbit(dir)) check_bystander(fd, dir);
    CHECK(intr_cnt[T_X] == 0 && intr_cnt[T_S] == 0 && !intr_unknown, "only registered waiters are woken (never a stale or foreign pointer)");
    CHECK(eng.v._events_remain == 0, "the whole batch is consumed");
    CHECK(k_evfd_reads == (sc.evfd ? 1 : 0), "wake-up eventfd drained when it is reported");
    if (n == 2 && delivered[1] && delivered[2]) WITNESS("two descriptors fired in one batch");
    if ((pre_interests[1] & 3) == 3 && intr_cnt[widx(1, 0)] == 1 && intr_cnt[widx(1, 1)] == 0) WITNESS("reader fired, writer of the same descriptor re-armed");
    if ((pre_interests[1] & 3) == 3 && intr_cnt[widx(1, 0)] == 1 && intr_cnt[widx(1, 1)] == 1) WITNESS("error/hang-up wakes both directions");
    if (pre_interests[2] == ONE_SHOT && delivered[2]) WITNESS("stale kernel registration reports an event nobody waits for");
    if (n == 0 && sc.eintr) WITNESS("epoll_wait interrupted once");
#elif OP == 1
    // ---- thread X waits for (f, d) ----
    Timeout tmo; tmo.expiration(nondet_u64());
    const bool conflict = (pre_interests[f] & dirbit(d)) != 0;          // somebody already waits for that direction of f
    int ret = eng.v.wait_for_fd(f, dirbit(d), tmo);
    const int e = errno;
    const bool fired_x = intr_cnt[T_X] != 0;
    if (conflict) {
        CHECK(ret == -1 && e == EALREADY, "a second waiter for the same descriptor and direction is refused with EALREADY");
        CHECK(usleep_calls == 0 && intr_total == 0, "a refused wait neither sleeps nor wakes anybody");
        CHECK(table[f].interests == pre_interests[f] && table[f].reader_data == pre_data[f][0] && table[f].writer_data == pre_data[f][1], "a refused wait leaves the first waiter registered");
        CHECK(K[f].registered == pre_kreg[f] && K[f].armed == pre_karmed[f] && K[f].mask == pre_kmask[f], "a refused wait leaves the kernel registration alone");
        WITNESS("conflicting waiter");
    } else {
        CHECK(usleep_calls == 1, "the waiter sleeps exactly once");
        CHECK((ret == 0) == fired_x, "wait_for_fd returns 0 exactly when its own event was fired");
        if (fired_x) {
            CHECK((delivered[f] & wakebits(d)) != 0, "the caller is woken with EOK only by an event for its own descriptor and direction");
            CHECK(intr_cnt[T_X] == 1 && intr_err[T_X] == EOK, "the caller is woken exactly once");
        } else {
            CHECK(ret == -1, "a wait that ends without its event fails");
            if (sc.sleep_outcome == 0) CHECK(e == ETIMEDOUT, "a timeout is reported as ETIMEDOUT");
            else CHECK(e == sc.sleep_errno, "an interrupt is reported with the interrupter's errno");
            if (sc.run_engine) CHECK(!(delivered[f] & wakebits(d)), "an event reported for the caller's descriptor and direction is not lost");
        }
        CHECK(!(table[f].interests & dirbit(d)) && data_of(table[f], d) == nullptr, "the caller's interest is removed when the wait ends (event, timeout or interrupt)");
        // the other direction of f and both directions of the other descriptor
        if (pre_interests[f] & dirbit(1 - d)) check_bystander(f, 1 - d);
        for (int dir = 0; dir < 2; dir++) if (pre_interests[other] & dirbit(dir)) check_bystander(other, dir);
        CHECK(intr_cnt[T_S] == 0 && !intr_unknown, "only registered waiters are woken (never a stale or foreign pointer)");
        if (ret == 0 && (pre_interests[f] & dirbit(1 - d)) && intr_cnt[widx(f, 1 - d)] == 0) WITNESS("own event fired, other direction of the same descriptor still armed");
        if (ret == -1 && e == ETIMEDOUT && (pre_interests[f] & dirbit(1 - d))) WITNESS("timeout while the other direction of the same descriptor is awaited");
        if (ret == -1 && e == ETIMEDOUT && pre_interests[f] == 0) WITNESS("timeout on a fresh descriptor");
        if (ret == -1 && e != ETIMEDOUT && intr_cnt[widx(other, 0)] == 1) WITNESS("interrupted while another descriptor's reader is fired");
        if (ret == 0 && pre_interests[f] == ONE_SHOT && pre_kreg[f]) WITNESS("re-programmed a left-over kernel registration");
        if (ret == 0 && pre_interests[f] == ONE_SHOT && !pre_kreg[f]) WITNESS("descriptor number re-used: EPOLL_CTL_MOD failed with ENOENT, added again");
    }
#elif OP == 2
    // ---- the descriptor is withdrawn from the engine (wait_for_fd(fd, 0, ...), as done before close()) ----
    int ret = eng.v.wait_for_fd(f, 0, Timeout());
    CHECK(ret == 0, "withdrawing a descriptor succeeds");
    CHECK((table[f].interests & (EVENT_RWE | ONE_SHOT)) == 0 && !K[f].registered, "a withdrawn descriptor has no interests and no kernel registration");
    CHECK(usleep_calls == 0 && intr_total == 0, "withdrawing neither sleeps nor wakes anybody");
    for (int dir = 0; dir < 2; dir++) if (pre_interests[other] & dirbit(dir)) check_bystander(other, dir);
    if (pre_interests[f] == ONE_SHOT && pre_interests[other] & 3) WITNESS("withdrew a descriptor with a left-over registration");
    if (pre_interests[f] == 0) WITNESS("withdrew an unknown descriptor");
#endif
    CHECK(inv(1) && inv(2), "engine table and kernel registrations are consistent after the step (invariant is inductive)");
    CHECK(!k_bad, "epoll is called with the engine's descriptor and valid arguments");
}
}
