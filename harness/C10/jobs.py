from vlib import Job

META = dict(
    bounds='I/O loops (h_doio.cpp): one call (or two consecutive calls) of every photon::net wrapper built on doio_once/doio_loop/BufStep/BufStepV '
           '(send, write, sendv, writev, sendmsg, send_n, write_n, sendv_n, writev_n, read, recv, readv, recvmsg, read_n, readv_n) and of '
           'KernelSocketStream::{read, write, recv, send, readv, writev} over a stub stream socket; flat buffers of 0..6 bytes (thorough 0..9) in '
           'exact-size static arrays; iovec shapes of <= 3 elements of 0..2 bytes (thorough 0..3), zero-length elements anywhere, iovec array of exactly '
           'iovcnt entries (quick: <= 2 elements for the *_n vector loops; thorough: 3 elements with one job per element count); symbolic data bytes; '
           'per system call the kernel moves any prefix 1..min(requested, cap) with symbolic cap, or fails with EINTR (<= 1 time per run, thorough 2), '
           'EAGAIN (<= 1, thorough 2) or a symbolic hard errno; EOF at a symbolic offset 0..total+2; every readiness wait returns ready / ETIMEDOUT / a '
           'symbolic interrupter errno; symbolic clock and deadline (KernelSocketStream: symbolic 64-bit stream timeout). '
           'Engine (h_epoll.cpp): one step (wait_and_fire_events, wait_for_fd, wait_for_fd(fd,0)) from every registered-interest state of 2 '
           'descriptors x {read, write} that satisfies the engine/kernel invariant, one kernel batch of <= 3 events in either order.',
    outside='the kernel and TCP/UDS semantics (replaced by the stub socket / stub epoll); real socket-buffer sizes ("several socket buffers" becomes every '
            'split of <= 9 bytes); more than two consecutive calls; EINTR/EAGAIN more often than the stated budget (the retry loops are then cut by the '
            'unwinding assertion, i.e. reported, not assumed away); net::readv/readv_n with iovcnt <= 0 (refused with EINVAL by an explicit guard); '
            'sendfile, connect, accept, zerocopy, TLS, io_uring and edge-triggered (epoll-ng) engines; EVENT_ERROR waiters, non-one-shot (cascading) '
            'interests, growth of the engine descriptor table, left-over events of a previous batch (_events_remain > 0), concurrency between vCPUs; '
            'multi-step engine histories (covered only through the inductive invariant of the single step).',
    assumptions=[
        'stub kernel socket rt/sockstub.c: a successful system call moves a non-empty prefix (0 only for a 0-byte request or at EOF), bytes in order; '
        'EINTR at most KINTR times and EAGAIN at most KAGAIN times per harness run; hard errors have an errno other than 0/EINTR/EAGAIN',
        'stub MasterEventEngine::wait_for_fd (harness): returns 0, or -1/ETIMEDOUT, or -1/any non-zero errno; the clock advances by 0..255 us per wait',
        'photon::CURRENT / vcpu / master engine are harness objects; photon::now is a symbolic 64-bit value',
        'stub epoll (h_epoll.cpp): EPOLL_CTL_ADD/MOD/DEL with EEXIST/ENOENT; MOD re-arms; a reported EPOLLONESHOT registration is disarmed for all events; '
        'epoll_wait reports a non-empty subset of (requested | EPOLLERR | EPOLLHUP) per armed descriptor, optionally the wake-up eventfd, at most one EINTR',
        'thread_usleep stub: the idle loop runs wait_and_fire_events at most once while the caller sleeps; other interrupters never use errno EOK (ENXIO)',
        'engine descriptor table is a static array of 4 entries installed into the std::vector representation (libstdc++ layout: begin/end/end_of_storage)',
        'code under test compiled with -fno-inline (always_inline honoured) so that loop bounds can be given per function; logging macros have empty bodies; NDEBUG',
    ],
)
SRC = 'C10/h_doio.cpp'
SH = ['libc.c', 'sockstub.c']
# (name, OP, vector?, loop?)
OPS = [('send', 0, 0, 0), ('write', 1, 0, 0), ('sendv', 2, 1, 0), ('writev', 3, 1, 0), ('sendmsg', 4, 1, 0),
       ('send_n', 10, 0, 1), ('write_n', 11, 0, 1), ('sendv_n', 12, 1, 1), ('writev_n', 13, 1, 1),
       ('read', 20, 0, 0), ('recv', 21, 0, 0), ('readv', 22, 1, 0), ('recvmsg', 23, 1, 0), ('read_n', 30, 0, 1), ('readv_n', 31, 1, 1),
       ('seq_write_n_send', 40, 0, 0), ('seq_read_n_recv', 41, 0, 0),
       ('ks_read', 50, 0, 1), ('ks_write', 51, 0, 1), ('ks_recv', 52, 0, 0), ('ks_send', 53, 0, 0), ('ks_readv', 54, 1, 1), ('ks_writev', 55, 1, 1)]
# the functions whose only loop is the doio_once retry loop (compiled with -fno-inline, so every loop keeps its function's name):
# at most KINTR + KAGAIN retries, then one final attempt
ONCE = ['_ZN6photon3net4sendEiPKvmiNS_7TimeoutE', '_ZN6photon3net7sendmsgEiPK6msghdriNS_7TimeoutE', '_ZN6photon3net5sendvEiPK5ioveciiNS_7TimeoutE',
        '_ZN6photon3net4readEiPvmNS_7TimeoutE', '_ZN6photon3net5readvEiPK5ioveciNS_7TimeoutE', '_ZN6photon3net4recvEiPvmiNS_7TimeoutE',
        '_ZN6photon3net7recvmsgEiP6msghdriNS_7TimeoutE']

def doio_job(name, op, vec, nel, ml, ki, ka, timeout, extra=(), mem_gb=4):
    tmax = nel * ml
    us = ['ext_sk_setup.0:13', 'ext_sk_setup.1:17', 'ext_sk_setup.2:5'] + ['f_%s.0:%d' % (f, ki + ka + 1) for f in ONCE]
    if name.startswith('ks_') and vec: us.append('verif_memcpy_n.0:%d' % (16 * nel + 1))      # SmartCloneIOV copies iovcnt * sizeof(iovec) bytes
    what = 'KernelSocketStream::%s' % name.split('.')[0][3:] if name.startswith('ks_') else 'net::%s' % name.split('.')[0]
    return Job(name, SRC, 'harness_doio', defines=['OP=%d' % op, 'NEL=%d' % nel, 'MLEN=%d' % ml, 'KINTR=%d' % ki, 'KAGAIN=%d' % ka] + list(extra),
               clang=['-fno-inline'], unwind=tmax + 1, unwindset=us, cbmc=['-D', 'SK_LENMAX=%d' % (ml if vec else tmax)], shims=SH, timeout=timeout, mem_gb=mem_gb,
               desc='%s over the stub stream socket' % what,
               bounds=('<=%d iovecs x <=%d bytes' % (nel, ml) if vec else 'buffer of <=%d bytes' % tmax) + ', EINTR<=%d EAGAIN<=%d' % (ki, ka)
                      + (', exactly %s iovecs' % extra[0].split('=')[1] if extra else ''))

def jobs(tier):
    q = tier == 'quick'
    J = []
    for nm, op, vec, loop in OPS:
        ks = nm.startswith('ks_')
        if q:
            if ks and vec: J.append(doio_job(nm + '.cnt2', op, vec, 2, 2, 1, 1, 400, extra=['FIXCNT=2'], mem_gb=4))    # SmartCloneIOV copies iovcnt entries: constant count
            elif vec and loop: J.append(doio_job(nm, op, vec, 2, 2, 1, 1, 400, mem_gb=4))
            else: J.append(doio_job(nm, op, vec, 3, 2, 1, 1, 400, mem_gb=2))
        else:
            if vec and loop:
                if not ks: J.append(doio_job(nm, op, vec, 2, 2, 2, 2, 3000, mem_gb=4))
                for c in range(1 if op == 31 else 0, 4): J.append(doio_job('%s.cnt%d' % (nm, c), op, vec, 3, 2, 1, 1, 3000, extra=['FIXCNT=%d' % c], mem_gb=6))
            elif loop:
                # flat-buffer loops: the doio_loop x doio_once product is the expensive part; longest buffers with one retry of each kind,
                # two retries of each kind with the shorter buffers
                J.append(doio_job(nm + '.len9', op, vec, 3, 3, 1, 1, 3000, mem_gb=3))
                J.append(doio_job(nm + '.retry2', op, vec, 3, 2, 2, 2, 3000, mem_gb=3))
            else: J.append(doio_job(nm, op, vec, 3, 3, 2, 2, 3000, mem_gb=3))
    # two EAGAIN waits inside one vectored KernelSocketStream call: both waits must carry the deadline fixed at the start of the call
    for nm, op in (('ks_readv', 54), ('ks_writev', 55)):
        J.append(doio_job(nm + '.cnt2.again2', op, 1, 2, 2, 0, 2, 400 if q else 3000, extra=['FIXCNT=2'], mem_gb=6))
    for nm, op, what in (('epoll_fire', 0, 'wait_and_fire_events: one batch of kernel events'), ('epoll_waitfd', 1, 'wait_for_fd: register, sleep, event / timeout / interrupt'),
                         ('epoll_withdraw', 2, 'wait_for_fd(fd, 0): descriptor withdrawn before close')):
        J.append(Job(nm, 'C10/h_epoll.cpp', 'harness_epoll', defines=['OP=%d' % op], unwind=4, shims=['libc.c', 'c10_epoll.c'], ir2c=['--stub', '_M_default_appendEm$'],
                     timeout=400 if q else 3000, mem_gb=4,
                     desc='EventEngineEPoll ' + what, bounds='2 descriptors x 2 directions, one step from every consistent registered-interest state'))
    return J
