from vlib import Job

META = dict(
    bounds='placeholder',
    outside='placeholder',
    assumptions=[],
)
SRC = 'C10/h_doio.cpp'
SH = ['libc.c', 'sockstub.c']
OPS = [('send', 0), ('write', 1), ('sendv', 2), ('writev', 3), ('sendmsg', 4), ('send_n', 10), ('write_n', 11), ('sendv_n', 12), ('writev_n', 13),
       ('read', 20), ('recv', 21), ('readv', 22), ('recvmsg', 23), ('read_n', 30), ('readv_n', 31)]

def jobs(tier):
    q = tier == 'quick'
    ml = 2 if q else 3
    ki, ka = (1, 1) if q else (2, 2)
    J = []
    for nm, op in OPS:
        J.append(Job(nm, SRC, 'harness_doio', defines=['OP=%d' % op, 'NEL=3', 'MLEN=%d' % ml, 'KINTR=%d' % ki, 'KAGAIN=%d' % ka], unwind=3 * ml + 3, shims=SH,
                     timeout=300 if q else 3000, mem_gb=4,
                     desc='net::%s over the stub stream socket' % nm, bounds='<=3 iovecs x <=%d bytes, EINTR<=%d EAGAIN<=%d' % (ml, ki, ka)))
    return J
