from vlib import Job

META = dict(
    bounds='placeholder',
    outside='placeholder',
    assumptions=[],
)
SRC = 'C10/h_doio.cpp'
SH = ['libc.c', 'sockstub.c']
# (name, OP, vector?, loop?)
OPS = [('send', 0, 0, 0), ('write', 1, 0, 0), ('sendv', 2, 1, 0), ('writev', 3, 1, 0), ('sendmsg', 4, 1, 0),
       ('send_n', 10, 0, 1), ('write_n', 11, 0, 1), ('sendv_n', 12, 1, 1), ('writev_n', 13, 1, 1),
       ('read', 20, 0, 0), ('recv', 21, 0, 0), ('readv', 22, 1, 0), ('recvmsg', 23, 1, 0), ('read_n', 30, 0, 1), ('readv_n', 31, 1, 1)]
# the functions whose only loop is the doio_once retry loop (compiled with -fno-inline, so every loop keeps its function's name):
# at most KINTR + KAGAIN retries, then one final attempt
ONCE = ['_ZN6photon3net4sendEiPKvmiNS_7TimeoutE', '_ZN6photon3net7sendmsgEiPK6msghdriNS_7TimeoutE', '_ZN6photon3net5sendvEiPK5ioveciiNS_7TimeoutE',
        '_ZN6photon3net4readEiPvmNS_7TimeoutE', '_ZN6photon3net5readvEiPK5ioveciNS_7TimeoutE', '_ZN6photon3net4recvEiPvmiNS_7TimeoutE',
        '_ZN6photon3net7recvmsgEiP6msghdriNS_7TimeoutE']

def doio_job(name, op, vec, nel, ml, ki, ka, timeout, extra=(), mem_gb=4):
    tmax = nel * ml
    us = ['ext_sk_setup.0:13', 'ext_sk_setup.1:17', 'ext_sk_setup.2:5'] + ['f_%s.0:%d' % (f, ki + ka + 1) for f in ONCE]
    return Job(name, SRC, 'harness_doio', defines=['OP=%d' % op, 'NEL=%d' % nel, 'MLEN=%d' % ml, 'KINTR=%d' % ki, 'KAGAIN=%d' % ka] + list(extra),
               clang=['-fno-inline'], unwind=tmax + 1, unwindset=us, cbmc=['-D', 'SK_LENMAX=%d' % (ml if vec else tmax)], shims=SH, timeout=timeout, mem_gb=mem_gb,
               desc='net::%s over the stub stream socket' % name.split('.')[0],
               bounds=('<=%d iovecs x <=%d bytes' % (nel, ml) if vec else 'buffer of <=%d bytes' % tmax) + ', EINTR<=%d EAGAIN<=%d' % (ki, ka))

def jobs(tier):
    q = tier == 'quick'
    J = []
    for nm, op, vec, loop in OPS:
        if q:
            if vec and loop: J.append(doio_job(nm, op, vec, 2, 2, 1, 1, 300))
            else: J.append(doio_job(nm, op, vec, 3, 2, 1, 1, 300))
        else:
            if vec and loop:
                J.append(doio_job(nm, op, vec, 2, 2, 2, 2, 3000))
                for c in range(1 if op == 31 else 0, 4): J.append(doio_job('%s.cnt%d' % (nm, c), op, vec, 3, 2, 1, 1, 3000, extra=['FIXCNT=%d' % c], mem_gb=8))
            else: J.append(doio_job(nm, op, vec, 3, 3, 2, 2, 3000, mem_gb=8))
    for nm, op, what in (('epoll_fire', 0, 'wait_and_fire_events: one batch of kernel events'), ('epoll_waitfd', 1, 'wait_for_fd: register, sleep, event / timeout / interrupt'),
                         ('epoll_withdraw', 2, 'wait_for_fd(fd, 0): descriptor withdrawn before close')):
        J.append(Job(nm, 'C10/h_epoll.cpp', 'harness_epoll', defines=['OP=%d' % op], unwind=4, shims=['libc.c', 'c10_epoll.c'], ir2c=['--stub', '_M_default_appendEm$'], timeout=300 if q else 3000, mem_gb=4,
                     desc='EventEngineEPoll ' + what, bounds='2 descriptors x 2 directions, one step from every consistent registered-interest state'))
    return J
