from vlib import Job

META = dict(
    bounds='iovector_view with 0..NE elements (3) of symbolic length 0..ML (2 quick / 3 thorough) in exact-size heap blocks, iovec array of exactly iovcnt entries; '
           'request sizes 0..total+2, offsets 0..total+1, destination views of 0..2 elements / 0..3 slots; one operation per harness run',
    outside='sequences of several operations; of the owning iovector class only extract_front/back (discard, copy-out, contiguous incl. the gathering path) and shrink_to are encoded (IOVectorEntity<4,0>, '
            'recording allocator that may fail) - push_front/back_more, truncate-up, slice / extract into another iovector, move are not; elements longer than ML bytes; more than 3 elements',
    assumptions=['malloc never fails', 'logging macros have empty bodies', 'NDEBUG build: assert() compiled out (as shipped)'],
)
SRC = 'C14/h_iov.cpp'
SH = ['libc.c']
NAMES = ['shrink_to', 'shrink_less_than', 'extract_front', 'extract_front_buf', 'extract_front_view', 'extract_back', 'extract_back_buf',
         'extract_back_view', 'extract_continuous', 'slice', 'copy_to_buf', 'memcpy_from_buf', 'copy_to_view']

def jobs(tier):
    q = tier == 'quick'
    ml = 2 if q else 3
    J = []
    for op, nm in enumerate(NAMES):
        J.append(Job(nm, SRC, 'harness_view', defines=['OP=%d' % op, 'NEL=3', 'MLEN=%d' % ml], unwind=3 * ml + 4, shims=SH, timeout=600 if q else 5000,
                     desc='iovector_view::%s vs flat byte model' % nm, bounds='<=3 elements x <=%d bytes' % ml))
    J = [j for j in J if j.name != 'copy_to_view']
    for pipe in (0, 1):
        J.append(Job('copy_to_view_%s' % ('pipe' if pipe else 'memcpy'), SRC, 'harness_view', defines=['OP=12', 'PIPE=%d' % pipe, 'NEL=3', 'MLEN=%d' % ml], unwind=3 * ml + 4, shims=SH,
                     timeout=900 if q else 5000, desc='iovector_view::%s(view) vs flat byte model' % ('pipe_to' if pipe else 'memcpy_to'), bounds='<=3 elements x <=%d bytes, destination <=2 elements' % ml))
    # the owning class: IOVectorEntity<4,0> with a recording allocator (may fail, exact-size blocks)
    STUB = ['--stub', '^@_ZN7IOAlloc17default_allocatorEPvNS_9RangeSizeEPS0_$', '--stub', '^@_ZN7IOAlloc19default_deallocatorEPvS0_$']
    for op, nm in enumerate(['own_extract_continuous', 'own_extract', 'own_shrink_to']):
        J.append(Job(nm, SRC, 'harness_own', defines=['OWN', 'OP=%d' % op, 'NEL=3', 'MLEN=2'], unwind=3 * 2 + 5, shims=SH + ['c12_stubs.c'], ir2c=STUB, timeout=900 if q else 5000,
                     mem_gb=8, desc='iovector (owning, IOVectorEntity<4,0>)::%s vs flat byte model' % nm[4:], bounds='<=3 elements x <=2 bytes (both tiers: 3-byte elements were not run to a verdict), request 0..total+2, allocator may fail'))
    return J
