// C14: every iovector_view operation equals its effect on the flat byte sequence.
// Real code: common/iovector.cpp (included textually: ioview::do_extract_front/back, iov_iterator, _copy_pipe_iov,
// src_extractor, slice, shrink_*), common/iovector.h (iovector_view inline members).
// State: NEL elements (symbolic count 0..NEL) of symbolic length 0..MLEN, each pointing into its own exact-size heap block;
// the iovec array itself is a heap block of exactly `cnt` entries, so touching iov[cnt] is an out-of-bounds access.
#include "verif_h.h"
#include "nolog.h"
#include <stdlib.h>
#include "common/iovector.cpp"

#ifndef NEL
#define NEL 3
#endif
#ifndef MLEN
#define MLEN 2
#endif
#define TMAX (NEL * MLEN)

// Exact-size storage.  iovec arrays are *typed* static arrays of exactly 1, 2 and 3 entries (separate objects, so iov[cnt] is
// out of bounds; an empty view points one past the 1-entry array).  A heap block would be a byte array to the solver and every
// iov[i].iov_len access a byte-level extract at a symbolic offset - measured: out of memory at 10 GB.
#define SET(k) static iovec A1_##k[1], A2_##k[2], A3_##k[3]; \
    static iovec* iov_array_##k(int c) { return c == 0 ? A1_##k + 1 : c == 1 ? A1_##k : c == 2 ? A2_##k : A3_##k; }
SET(0) SET(1) SET(2)      // three independent sets of separate objects: source, destination, output
static iovec* iov_array(int set, int c) { return set == 0 ? iov_array_0(c) : set == 1 ? iov_array_1(c) : iov_array_2(c); }
// data blocks: separate static byte arrays of exactly 1..8 bytes per user (size 0 = one past a 1-byte array); static
// fixed-size arrays are bit-blasted directly, heap blocks went through the array theory and exhausted memory
#define BLK(k) static uint8_t D1_##k[1], D2_##k[2], D3_##k[3], D4_##k[4], D5_##k[5], D6_##k[6], D7_##k[7], D8_##k[8]; \
    static uint8_t* blk_##k(size_t n) { return n == 0 ? D1_##k + 1 : n == 1 ? D1_##k : n == 2 ? D2_##k : n == 3 ? D3_##k : n == 4 ? D4_##k : \
                                               n == 5 ? D5_##k : n == 6 ? D6_##k : n == 7 ? D7_##k : D8_##k; }
BLK(0) BLK(1) BLK(2) BLK(3) BLK(4) BLK(5) BLK(6)
static uint8_t* xmalloc_set(int k, size_t n)
{
    ASSUME(n <= 8);
    return k == 0 ? blk_0(n) : k == 1 ? blk_1(n) : k == 2 ? blk_2(n) : k == 3 ? blk_3(n) : k == 4 ? blk_4(n) : k == 5 ? blk_5(n) : blk_6(n);
}
struct Vec { iovec* iov; int cnt; uint8_t flat[TMAX + 1]; size_t total; };

static void mk(Vec& v, int maxcnt, int set)
{
    uint8_t c = nondet_u8(); ASSUME(c <= maxcnt);
    v.cnt = c; size_t total = 0;
    v.iov = iov_array(set, c);
    for (int i = 0; i < NEL; i++) {
        if (i >= c) break;
        uint8_t len = nondet_u8(); ASSUME(len <= MLEN);
        uint8_t* b = xmalloc_set(set * 3 + i, len);
        for (int k = 0; k < MLEN; k++) { if (k >= len) break; uint8_t x = nondet_u8(); b[k] = x; v.flat[total++] = x; }
        v.iov[i].iov_base = b; v.iov[i].iov_len = len;
    }
    v.total = total;
}
// bytes currently denoted by a view, read through its elements (every read is bounds-checked by the solver)
static size_t flatten(const iovector_view& w, uint8_t* out)
{
    size_t n = 0;
    for (int i = 0; i < NEL + 1; i++) {
        if (i >= w.iovcnt) break;
        for (size_t k = 0; k < MLEN; k++) { if (k >= w.iov[i].iov_len) break; ASSUME(n < TMAX); out[n++] = ((uint8_t*)w.iov[i].iov_base)[k]; }
        CHECK(w.iov[i].iov_len <= MLEN, "element length stays within its buffer");
    }
    return n;
}
static bool eq(const uint8_t* a, const uint8_t* b, size_t n) { for (size_t i = 0; i < TMAX; i++) { if (i >= n) break; if (a[i] != b[i]) return false; } return true; }
static inline size_t mn(size_t a, size_t b) { return a < b ? a : b; }
// number of source elements that contribute at least one byte to the first (front) / last (back) `r` bytes, and whether the
// vector has zero-length elements (the implementation hands those out as empty pieces, which also occupy a slot)
static int pieces_needed(const iovec* iov, int cnt, size_t r, bool back, bool* has_zero)
{
    int n = 0; size_t left = r; *has_zero = false;
    for (int k = 0; k < NEL; k++) {
        if (k >= cnt) break;
        int i = back ? cnt - 1 - k : k;
        if (iov[i].iov_len == 0) *has_zero = true;
        if (left > 0 && iov[i].iov_len > 0) { n++; left -= mn(left, iov[i].iov_len); }
    }
    return n;
}

extern "C" {
void harness_view()
{
    Vec v; mk(v, NEL, 0);
    iovector_view w(v.iov, v.cnt);
    const size_t T = v.total;
    uint8_t n8 = nondet_u8(); ASSUME(n8 <= TMAX + 2);       // request sizes from 0 to beyond the total
    size_t n = n8;
    uint8_t after[TMAX + 1]; size_t ta;
    CHECK(w.sum() == T, "sum() is the flat length");
#if OP == 0   // shrink_to
    size_t r = w.shrink_to(n);
    CHECK(r == mn(n, T), "shrink_to returns min(size, total)");
    ta = flatten(w, after);
    CHECK(ta == mn(n, T) && eq(after, v.flat, ta), "shrink_to keeps exactly the first min(size,total) bytes");
    if (n < T && n > 0) WITNESS("shrink_to truncated");
#elif OP == 1   // shrink_less_than: keeps whole elements; the returned excess is how far the kept sum exceeds `size`
    size_t r = w.shrink_less_than(n);
    ta = flatten(w, after);
    CHECK(eq(after, v.flat, ta) && ta <= T, "shrink_less_than keeps a prefix, contents untouched");
    if (n > 0 && n <= T) CHECK(ta - r == n, "kept bytes minus the returned excess equals the requested size");
    if (n > T) CHECK(ta == T && r == 0, "request beyond the total leaves the vector unchanged");
    if (n > 0 && n <= T && r > 0) WITNESS("shrink_less_than with excess");
#elif OP == 2   // extract_front(bytes)
    size_t r = w.extract_front(n);
    CHECK(r == mn(n, T), "extract_front returns min(bytes, total)");
    ta = flatten(w, after);
    CHECK(ta == T - r && eq(after, v.flat + r, ta), "extract_front leaves exactly the remaining bytes");
    if (r > 0 && r < T) WITNESS("extract_front partial");
#elif OP == 3   // extract_front(bytes, buf) - exact-size destination
    uint8_t* buf = xmalloc_set(6, n);
    size_t r = w.extract_front(n, buf);
    CHECK(r == mn(n, T), "extract_front(buf) returns min(bytes, total)");
    CHECK(eq(buf, v.flat, r), "extract_front(buf) copies the first bytes in order");
    ta = flatten(w, after);
    CHECK(ta == T - r && eq(after, v.flat + r, ta), "extract_front(buf) leaves exactly the remaining bytes");
    if (r > 1 && r < T) WITNESS("extract_front(buf) partial");
#elif OP == 4   // extract_front(bytes, view*)
    uint8_t slots = nondet_u8(); ASSUME(slots <= NEL);
    iovec* oa = iov_array(2, slots);
    iovector_view out(oa, slots);
    bool hz; int need = pieces_needed(v.iov, v.cnt, mn(n, T), false, &hz);
    ssize_t r = w.extract_front(n, &out);
    if (!hz && slots >= need) CHECK(r >= 0, "extract_front(view) succeeds when the output has a slot for every piece of the requested prefix");
    if (r >= 0) {
        CHECK((size_t)r == mn(n, T), "extract_front(view) returns min(bytes, total)");
        uint8_t ob[TMAX + 1]; size_t to = flatten(out, ob);
        CHECK(to == (size_t)r && eq(ob, v.flat, to), "extracted sub-vector denotes the first bytes");
        CHECK(out.iovcnt <= slots, "extracted sub-vector fits the slots given");
        ta = flatten(w, after);
        CHECK(ta == T - r && eq(after, v.flat + r, ta), "extract_front(view) leaves exactly the remaining bytes");
        if (r > 0 && out.iovcnt == 2) WITNESS("extract_front(view) two pieces");
    } else { CHECK(r == -1, "failure is -1"); WITNESS("extract_front(view) out of slots"); }
#elif OP == 5   // extract_back(bytes)
    size_t r = w.extract_back(n);
    CHECK(r == mn(n, T), "extract_back returns min(bytes, total)");
    ta = flatten(w, after);
    CHECK(ta == T - r && eq(after, v.flat, ta), "extract_back leaves exactly the leading bytes");
    if (r > 0 && r < T) WITNESS("extract_back partial");
#elif OP == 6   // extract_back(bytes, buf)
    uint8_t* buf = xmalloc_set(6, n);
    size_t r = w.extract_back(n, buf);
    CHECK(r == mn(n, T), "extract_back(buf) returns min(bytes, total)");
    if (n <= T) CHECK(eq(buf, v.flat + (T - r), r), "extract_back(buf) copies the last bytes in order");
    ta = flatten(w, after);
    CHECK(ta == T - r && eq(after, v.flat, ta), "extract_back(buf) leaves exactly the leading bytes");
    if (r > 1 && r < T) WITNESS("extract_back(buf) partial");
#elif OP == 7   // extract_back(bytes, view*)
    uint8_t slots = nondet_u8(); ASSUME(slots <= NEL);
    iovec* oa = iov_array(2, slots);
    iovector_view out(oa, slots);
    bool hz; int need = pieces_needed(v.iov, v.cnt, mn(n, T), true, &hz);
    ssize_t r = w.extract_back(n, &out);
    if (!hz && slots >= need) CHECK(r >= 0, "extract_back(view) succeeds when the output has a slot for every piece of the requested suffix");
    if (r >= 0) {
        CHECK((size_t)r == mn(n, T), "extract_back(view) returns min(bytes, total)");
        uint8_t ob[TMAX + 1]; size_t to = flatten(out, ob);
        CHECK(to == (size_t)r && eq(ob, v.flat + (T - r), to), "extracted sub-vector denotes the last bytes");
        ta = flatten(w, after);
        CHECK(ta == T - r && eq(after, v.flat, ta), "extract_back(view) leaves exactly the leading bytes");
        if (r > 0 && out.iovcnt == 2) WITNESS("extract_back(view) two pieces");
    } else { CHECK(r == -1, "failure is -1"); WITNESS("extract_back(view) out of slots"); }
#elif OP == 8   // extract_front_continuous / extract_back_continuous
    bool back = nondet_bool();
    uint8_t* p = (uint8_t*)(back ? w.extract_back_continuous(n) : w.extract_front_continuous(n));
    ta = flatten(w, after);
    if (p) {
        CHECK(n <= T, "a contiguous extract never exceeds the content");
        if (!back) { CHECK(eq(p, v.flat, n), "contiguous front extract points at the first bytes"); CHECK(ta == T - n && eq(after, v.flat + n, ta), "remaining bytes after contiguous front extract"); }
        else { CHECK(eq(p, v.flat + (T - n), n), "contiguous back extract points at the last bytes"); CHECK(ta == T - n && eq(after, v.flat, ta), "remaining bytes after contiguous back extract"); }
        if (n > 0) WITNESS("contiguous extract succeeded");
    } else {
        CHECK(ta == T && eq(after, v.flat, ta), "a failed contiguous extract leaves the vector unchanged");
        WITNESS("contiguous extract refused");
    }
#elif OP == 9   // slice
    uint8_t off8 = nondet_u8(); ASSUME(off8 <= TMAX + 1); size_t off = off8;
    uint8_t slots = nondet_u8(); ASSUME(slots <= NEL);
    iovec* oa = iov_array(2, slots);
    iovector_view out(oa, slots);
    ssize_t r = w.slice(n, off, &out);
    if (slots == 0) { CHECK(r == -1, "slice into a view without slots fails"); }
    else {
        size_t want = off < T ? mn(n, T - off) : 0;
        CHECK(r >= 0 && (size_t)r <= want, "slice returns at most min(count, total - offset)");
        if (slots == NEL) CHECK((size_t)r == want, "slice with enough slots returns exactly min(count, total - offset)");
        uint8_t ob[TMAX + 1]; size_t to = flatten(out, ob);
        CHECK(to == (size_t)r && eq(ob, v.flat + off, to), "slice denotes the bytes [offset, offset+ret)");
        ta = flatten(w, after);
        CHECK(ta == T && eq(after, v.flat, ta), "slice leaves the source unchanged");
        if (r > 0 && off > 0 && out.iovcnt == 2) WITNESS("slice: offset inside, two pieces");
    }
#elif OP == 10  // memcpy_to(buf) / pipe_to(buf)
    bool pipe = nondet_bool();
    uint8_t* buf = xmalloc_set(6, n);
    size_t r = pipe ? w.pipe_to(buf, n) : w.memcpy_to(buf, n);
    CHECK(r == mn(n, T), "memcpy_to/pipe_to(buf) copy min(size, total)");
    CHECK(eq(buf, v.flat, r), "memcpy_to/pipe_to(buf) copy the first bytes in order");
    ta = flatten(w, after);
    if (pipe) CHECK(ta == T - r && eq(after, v.flat + r, ta), "pipe_to extracts what it copied");
    else CHECK(ta == T && eq(after, v.flat, ta), "memcpy_to leaves the source unchanged");
    if (r > 1 && r < T && pipe) WITNESS("pipe_to(buf) partial");
    if (r > 1 && !pipe) WITNESS("memcpy_to(buf)");
#elif OP == 11  // memcpy_from(buf)
    uint8_t* buf = xmalloc_set(6, n);
    for (size_t i = 0; i < TMAX + 2; i++) { if (i >= n) break; buf[i] = nondet_u8(); }
    size_t r = w.memcpy_from(buf, n);
    CHECK(r == mn(n, T), "memcpy_from(buf) copies min(size, total)");
    ta = flatten(w, after);
    CHECK(ta == T && eq(after, buf, r) && eq(after + r, v.flat + r, T - r), "memcpy_from overwrites exactly the first bytes");
    if (r > 1) WITNESS("memcpy_from(buf)");
#elif OP == 12  // memcpy_to(view) / pipe_to(view): destination with its own shape
    Vec d; mk(d, 2, 1);
    iovector_view dw(d.iov, d.cnt);
#ifdef PIPE
    bool pipe = PIPE;
#else
    bool pipe = nondet_bool();
#endif
    size_t r = pipe ? w.pipe_to(&dw, n) : w.memcpy_to(&dw, n);
    size_t want = mn(n, mn(T, d.total));
    CHECK(r == want, "memcpy_to/pipe_to(view) copy min(size, source total, destination total)");
    uint8_t db[TMAX + 1]; size_t td = flatten(dw, db);
    CHECK(td == d.total && eq(db, v.flat, r) && eq(db + r, d.flat + r, td - r), "destination holds the copied bytes, the rest untouched");
    ta = flatten(w, after);
    if (pipe) CHECK(ta == T - r && eq(after, v.flat + r, ta), "pipe_to(view) extracts what it copied");
    else CHECK(ta == T && eq(after, v.flat, ta), "memcpy_to(view) leaves the source unchanged");
    if (r > 1 && d.cnt == 2) WITNESS("copy into a two-element destination");
#endif
    if (T == 0) WITNESS("empty vector");
    if (T == TMAX) WITNESS("full-size vector");
    if (n > T) WITNESS("request beyond the total");
}
}

// =====================================================================================================================
// The owning class (iovector / IOVectorEntity): wrappers that re-derive iov_begin / iov_end from the view, and the copying
// paths of extract_front/back_continuous (do_malloc through the vector's allocator).  Same oracle: the flat byte string.
#ifdef OWN
typedef IOVectorEntity<NEL + 1, 0> OVec;               // IOVector is IOVectorEntity<32, 4>: same template, larger arrays
static Raw<OVec> OV;
static int n_alloc, n_dealloc; static bool alloc_failed; static uint8_t* alloc_blk; static int alloc_size;
static int own_alloc_cb(void*, IOAlloc::RangeSize sz, void** out)
{
    n_alloc++;
    CHECK(sz.min >= 0 && sz.max >= sz.min, "the allocator is asked for a non-negative, ordered size range");
    CHECK(n_alloc == 1, "one operation allocates at most one gather buffer");
    if (nondet_bool() || sz.max > TMAX + 2 || n_alloc > 1) { alloc_failed = true; return -1; }
    alloc_blk = xmalloc_set(6, sz.max); alloc_size = sz.max;     // exact-size block: writing past the request is out of bounds
    *out = alloc_blk;
    return sz.max;
}
static int own_dealloc_cb(void*, void*) { n_dealloc++; return 0; }
extern "C" void harness_own()
{
    Vec v; mk(v, NEL, 0);
    OVec& o = *new (&OV.v) OVec(IOAlloc(IOAlloc::Allocator(nullptr, &own_alloc_cb), IOAlloc::Deallocator(nullptr, &own_dealloc_cb)));
    for (int i = 0; i < NEL; i++) { if (i >= v.cnt) break; o.push_back(v.iov[i].iov_base, v.iov[i].iov_len); }
    const size_t T = v.total;
    uint8_t n8 = nondet_u8(); ASSUME(n8 <= TMAX + 2);
    size_t n = n8;
    uint8_t after[TMAX + 1]; size_t ta;
    CHECK(o.sum() == T && o.iovcnt() == v.cnt, "the owning vector denotes the pushed elements");
    bool back = nondet_bool();
#if OP == 0   // extract_front_continuous / extract_back_continuous (incl. the gathering path)
    uint8_t* p = (uint8_t*)(back ? o.extract_back_continuous(n) : o.extract_front_continuous(n));
    ta = flatten(o.view(), after);
    if (p) {
        CHECK(n <= T, "a contiguous extract never exceeds the content");
        if (!back) { CHECK(eq(p, v.flat, n), "contiguous front extract holds the first bytes"); CHECK(ta == T - n && eq(after, v.flat + n, ta), "remaining bytes after contiguous front extract"); }
        else { CHECK(eq(p, v.flat + (T - n), n), "contiguous back extract holds the last bytes"); CHECK(ta == T - n && eq(after, v.flat, ta), "remaining bytes after contiguous back extract"); }
        if (n_alloc) { CHECK(p == alloc_blk && alloc_size == (int)n, "a gathered extract lives in a buffer of exactly the requested size"); WITNESS("contiguous extract gathered from several elements"); }
        else if (n > 0) WITNESS("contiguous extract inside one element");
    } else {
        CHECK(n > T || alloc_failed || n == 0, "a contiguous extract of at most the content fails only when the allocation fails");
        CHECK(ta == T && eq(after, v.flat, ta), "a failed contiguous extract leaves the vector denoting the same bytes");
        if (n > T && v.cnt >= 2) WITNESS("contiguous extract beyond the content refused");
        if (alloc_failed) WITNESS("allocation failed");
    }
#elif OP == 1   // extract_front(bytes) / extract_back(bytes) / with copy-out: iov_begin / iov_end re-derived from the view
    bool copy = nondet_bool();
    uint8_t* buf = xmalloc_set(5, n);
    size_t r = back ? (copy ? o.extract_back(n, buf) : o.extract_back(n)) : (copy ? o.extract_front(n, buf) : o.extract_front(n));
    CHECK(r == mn(n, T), "extract returns min(count, total)");
    ta = flatten(o.view(), after);
    CHECK(ta == T - r && eq(after, back ? v.flat : v.flat + r, ta), "extract leaves exactly the remaining bytes");
    // (a truncated back extract right-aligns the bytes in the caller's buffer of `n` bytes; where they land is not part of the flat-string
    //  contract, so - as in the view-level job extract_back_buf - the copied bytes of a back extract are compared for n <= total only)
    if (copy && (!back || n <= T)) CHECK(eq(buf, back ? v.flat + (T - r) : v.flat, r), "extract copies out exactly the extracted bytes");
    CHECK(n_alloc == 0, "plain extracts do not allocate");
    if (r > 0 && r < T) WITNESS("partial extract");
    if (n > T) WITNESS("extract beyond the content is truncated");
#elif OP == 2   // shrink_to / truncate-down
    size_t r = o.shrink_to(n);
    CHECK(r == mn(n, T), "shrink_to returns min(size, total)");
    ta = flatten(o.view(), after);
    CHECK(ta == r && eq(after, v.flat, ta), "shrink_to keeps exactly the leading bytes");
    if (r < T && r > 0) WITNESS("shrunk");
#endif
    CHECK(o.iovcnt() <= NEL + 1 && o.front_free_iovcnt() + o.iovcnt() <= NEL + 1, "the element window stays inside the array");
    if (T == TMAX) WITNESS("full-size vector");
}
#endif
