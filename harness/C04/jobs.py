from vlib import Job

META = dict(
    bounds='(1) SleepQueue: every valid heap of n <= 6 (quick) / 12 (thorough) distinct thread objects with symbolic 64-bit deadlines (equal and UINT64_MAX '
           'included), ONE real push / pop(th) / pop_front / up / down with a symbolic member or new element; vector growth (_M_realloc_insert) for n <= 2 / 3. '
           '(2) two consecutive blocking calls (thread_yield / thread_usleep with a symbolic 64-bit timeout, optionally shutting down) of one thread on a vCPU with one '
           'other runnable thread (+ optionally one unrelated sleeper); while switched out: <= 2 (thorough 3) real thread_interrupt() calls per switch-out (same-vCPU '
           'or cross-vCPU, before / after the scheduling round), a symbolic monotone clock advance, one real resume_threads() round, real AtomicRunQ::goto_next(). '
           '(3) Timeout arithmetic: full 64-bit symbolic clock, durations and clock advance. '
           '(4) resume_threads(): one call from every valid vCPU state of 3 (thorough 4) threads besides the running one, each symbolic in {SLEEPING, SLEEPING in a '
           'wait queue, STANDBY still in the heap, STANDBY already out of the heap, READY}, symbolic heap slots, list orders, deadlines, reasons and clock; '
           'idler(): one round with <= 3 sleepers.',
    outside='longer histories than two blocking calls / one scheduling round per switch-out (the per-step checks are inductive over the representation invariant, the '
            'two-call sequences are not); more than one other runnable thread; true concurrency of a cross-vCPU interrupt with resume_threads() on the target vCPU '
            '(the cross-vCPU branch is executed atomically between the target vCPU\'s steps; the window "interrupted just after standbyq.eject_whole_atomic()" is not '
            'covered); the machine-level context switch; the clock source (clock_gettime / rdtsc / vDSO mimic); thread_usleep_defer variants; work stealing.',
    assumptions=[
        'switch_context(from,to) (inline asm) is replaced by harness code that runs the other side\'s script with the real functions and returns when "from" is RUNNING again',
        'update_now() (clock_gettime + conversion) is replaced by "any value >= the current runtime clock"; rdtsc returns an arbitrary value; whether a timestamp-updater '
        'thread is running is symbolic; in the idler round the clock is not refreshed by the idler itself',
        'operator new returns a fresh zero-initialised block of 16 pointers from a static pool (rt/c04_heap.c); exhaustion / oversize is an assertion failure; never fails',
        'thread objects live in zero-initialised static storage with the constructor\'s field values set by the harness (idx = -1, self-linked list node, state, vcpu)',
        'interrupt reasons are non-zero (thread_interrupt(th, 0) is indistinguishable from a normal wake-up by design)',
        'spin-wait iterations are cut (single OS thread: every lock is free when taken; lock release is CHECKed)',
        'vcpu_t is zero-initialised static storage + the fields used (master_event_engine = recording engine, state, flags = 0: no work stealing)',
    ],
)

# The FINDING_* jobs fail on the unchanged tree (suspected defects, reproduced natively: native_repro_stale_interrupt.cpp).  Each carries a kf id: once an entry
# {id, property: 'C04', assertion_regex, what} is listed in known_findings.json the runner prints KNOWN-FINDING for it instead of VIOLATION.
SHIM = ['c04_heap.c']
SWITCH = '_ZN6photon14switch_contextEPNS_6threadES1_'
UPD = '_ZN6photonL10update_nowEv'
SCHED_CLANG = ['-fno-access-control', '-mllvm', '-force-attribute=%s:noinline' % SWITCH, '-mllvm', '-force-attribute=%s:noinline' % UPD]
# NullEventEngine (the vCPU's default engine; std::mutex / condition_variable inside) is never installed here: the harness installs its own recording
# engine, the translator's virtual-call dispatch still lists NullEventEngine's overrides as candidates -> empty bodies
SCHED_IR2C = ['--nop', '^@_ZN6photon15NullEventEngine', '--asm', 'rdtsc=verif_rdtsc', '--map', '^@%s$=verif_update_now' % UPD, '--map', '^@%s$=verif_switch' % SWITCH]
POP = 'f__ZN6photon10SleepQueue3popEPNS_6threadE'
POPF = 'f__ZN6photon10SleepQueue9pop_frontEv'
PUSH = 'f__ZN6photon10SleepQueue4pushEPNS_6threadE'
RES = 'f__ZN6photonL14resume_threadsEPNS_6vcpu_tERKNS_4RunQE'
IDL = 'f__ZN6photonL5idlerEPv'


def heap_uw(depth_bound):
    return ['%s.0:%d' % (POP, depth_bound), '%s.1:%d' % (POP, depth_bound), '%s.0:%d' % (POPF, depth_bound), '%s.0:%d' % (PUSH, depth_bound)]


def sched(name, entry, defines, unwind, unwindset, desc, bounds, timeout, mem_gb=5, kf=None):
    return Job(name, 'C04/h_sched.cpp', entry, defines=defines, unwind=unwind, unwindset=unwindset, shims=SHIM, clang=SCHED_CLANG, ir2c=SCHED_IR2C,
               timeout=timeout, mem_gb=mem_gb, desc=desc, bounds=bounds, kf=kf)


def jobs(tier):
    q = tier == 'quick'
    TO = 900 if q else 6000
    J = []
    # ---- (1) SleepQueue, one inductive step per operation
    n = 6 if q else 12
    names = ['push', 'pop', 'pop_front', 'up', 'down']
    for op in range(5):
        J.append(Job('sleepq_%s_n%d' % (names[op], n), 'C04/h_sleepq.cpp', 'harness_sleepq', defines=['NMAX=%d' % n, 'OP=%d' % op], unwind=n + 3, shims=SHIM,
                     timeout=TO, mem_gb=4 if q else 10, desc='SleepQueue::%s from every valid heap of <= %d threads: invariant, membership, idx == -1, front() minimal' % (names[op], n),
                     bounds='<= %d members before the step, 64-bit symbolic deadlines, symbolic member / new element' % n))
    nr = 2 if q else 3
    J.append(Job('sleepq_push_grow_n%d' % nr, 'C04/h_sleepq.cpp', 'harness_sleepq', defines=['NMAX=%d' % nr, 'OP=0', 'NORESERVE'], unwind=nr + 3,
                 unwindset=['verif_memmove_n.0:%d' % (8 * nr + 2), 'verif_memmove_n.1:%d' % (8 * nr + 2)], shims=SHIM, timeout=TO, mem_gb=5,
                 desc='SleepQueue::push with the vector growing by itself (std::vector::_M_realloc_insert inside the step)', bounds='<= %d members, capacity not reserved' % nr))
    # ---- (3) Timeout arithmetic
    J.append(Job('timeout_arith', 'C04/h_timeout.cpp', 'harness_timeout', unwind=3, shims=SHIM, timeout=TO, mem_gb=2,
                 desc='Timeout(x) saturates, expired() <=> expiration <= now, timeout() = saturating difference, timeout_at_most, shutdown cap, re-arming; no early expiry',
                 bounds='64-bit symbolic clock, duration, clock advance'))
    J.append(Job('timeout_compare', 'C04/h_timeout.cpp', 'harness_timeout_cmp', unwind=3, shims=SHIM, timeout=TO, mem_gb=2,
                 desc='Timeout operators <, >, >=, == agree with the order of expirations', bounds='64-bit symbolic expirations'))
    J.append(Job('FINDING_timeout_operator_le', 'C04/h_timeout.cpp', 'harness_timeout_cmp', defines=['WITH_LE'], unwind=3, shims=SHIM, timeout=TO, mem_gb=2,
                 desc='Timeout::operator<= is implemented with "<": false for equal deadlines (suspected defect, common/timeout.h:59)', bounds='64-bit symbolic expirations', kf='C04-timeout-operator-le'))
    # ---- (4) resume_threads, idler
    nt = 3 if q else 4
    d = nt.bit_length()
    J.append(sched('resume_n%d' % nt, 'harness_resume', ['H_RESUME', 'NTH=%d' % nt], nt + 3, heap_uw(d) + ['%s.2:%d' % (RES, nt + 1), '%s.6:%d' % (RES, nt + 1)],
                   'one resume_threads() round from every valid (run list, standbyq, sleep heap, wait queue) state', '%d threads besides the running one' % nt, TO, 5 if q else 16))
    J.append(sched('idler_n3', 'harness_idler', ['H_IDLER', 'NTH=3'], 5, heap_uw(2) + ['%s.5:2' % IDL, '%s.14:2' % IDL, '%s.16:2' % IDL, '%s.2:4' % RES, '%s.6:4' % RES],
                   'one idler() round: engine wait == min(10*2^20 us, earliest deadline - now), never beyond any sleeper\'s deadline', '<= 3 sleepers, none due', TO))
    # ---- (2) sequences of two blocking calls with interrupts in between
    suw = heap_uw(2) + ['%s.2:3' % RES, '%s.6:3' % RES]
    nev = 2 if q else 3
    def seq(name, defs, desc, bounds='2 blocking calls, <= %d interrupts per switch-out' % nev, mem=6, kf=None):
        return sched(name, 'harness_seq', ['H_SEQ', 'NEV=%d' % nev] + defs, 4, suw, desc, bounds, TO, mem if q else 2 * mem, kf=kf)
    J.append(seq('seq_sleep_sleep', ['SCN=2', 'REAL1'], 'sleep (not yet expired), then sleep: 0 only after the deadline; -1 only with the errno of an interrupt issued during that very sleep'))
    J.append(seq('seq_sleep_sleep_waitq', ['SCN=2', 'REAL1', 'WAITQ'], 'same through the internal thread_usleep(timeout, waitq) used by mutex / cv / semaphore: every wake-up also unlinks the wait queue'))
    J.append(seq('seq_sleep_yield', ['SCN=5', 'REAL1'], 'sleep, then yield: the yield reports only an interrupt issued during it'))
    J.append(seq('seq_yield_yield', ['SCN=3'], 'yield, then yield'))
    J.append(seq('seq_sleep_sleep_shutdown', ['SCN=2', 'REAL1', 'SHUTDOWN'], 'same with a symbolic shutting_down flag: -1/EPERM after min(t, 10ms) unless interrupted', mem=8))
    if not q:
        J.append(seq('seq_sleep_sleep_sleeper', ['SCN=2', 'REAL1', 'WITH_SLEEPER'], 'sleep, sleep with an unrelated sleeper in the heap that may be woken in between', mem=10))
    J.append(seq('FINDING_interrupt_in_yield_leaks_into_next_sleep', ['SCN=1'],
                 'yield, then sleep: an interrupt that arrives during thread_yield() is returned by it but stays stored in error_number; the next, unrelated thread_usleep '
                 'that times out normally returns -1 with the stale errno (suspected defect, thread.cpp thread_yield / thread_interrupt READY branch)', kf='C04-stale-interrupt-yield'))
    J.append(seq('FINDING_interrupt_before_first_run_fails_later_sleep', ['SCN=4'],
                 'a READY thread that has not run yet is interrupted: the reason is stored and its first thread_usleep, although it sleeps the full time, returns -1', kf='C04-stale-interrupt-newthread'))
    if not q:
        J.append(seq('FINDING_interrupt_in_expired_sleep_leaks_into_next_sleep', ['SCN=2'],
                     'sleep with an already expired timeout (= yield), then sleep: same stale-errno leak through thread_usleep(0)', kf='C04-stale-interrupt-expired-sleep'))
    return J
