from vlib import Job

META = dict(bounds='wip', outside='wip', assumptions=[])
SH = ['c04_heap.c']

def jobs(tier):
    q = tier == 'quick'
    J = []
    n = 7 if q else 10
    names = ['push', 'pop', 'pop_front', 'up', 'down']
    for op in range(5):
        J.append(Job('sleepq_%s_n%d' % (names[op], n), 'C04/h_sleepq.cpp', 'harness_sleepq', defines=['NMAX=%d' % n, 'OP=%d' % op], unwind=n + 3, shims=SH,
                     timeout=300, mem_gb=6, desc='SleepQueue::%s from every valid heap of <= %d threads' % (names[op], n), bounds='<= %d members, 64-bit symbolic deadlines' % n))
    return J
