// C04 (Layer A, part 1): SleepQueue - the hand-written binary min-heap of sleeping threads keyed by thread::ts_wakeup, with the
// back-index thread::idx stored in every member.  Inductive one-step check: from EVERY heap of n <= NMAX distinct thread objects
// that satisfies the representation invariant (heap order, back-indices), ONE real operation (push / pop(th) / pop_front / up /
// down) with a symbolic member or new element re-establishes the invariant, changes the member multiset by exactly that element,
// leaves a removed element with idx == -1 and keeps front() a minimum.
// Real code: photon::SleepQueue and photon::thread (thread/thread.cpp, file-local => textual include), std::vector<thread*> header code.
#include "verif_h.h"
#include "nolog.h"
#include "thread/thread.cpp"
using namespace photon;

#ifndef NMAX
#define NMAX 5            // members before the operation (push => NMAX+1 afterwards)
#endif
#define NOBJ (NMAX + 1)
#ifndef OP
#define OP 0
#endif

// separate objects (not an array): the solver keeps every field of every thread as its own variable
static Raw<thread> TH0, TH1, TH2, TH3, TH4, TH5, TH6, TH7, TH8, TH9, TH10, TH11, TH12;
static Raw<SleepQueue> SQs;
static uint64_t ts0[NOBJ];      // keys before the step (the heap must never change a key)
static bool mem0[NOBJ];         // membership before the step
static bool wit[8];             // vacuity witnesses are raised once, after the case split (a copy per case would be unreachable for small n)

static inline thread* T(int i)
{
    switch (i) {
    case 0: return &TH0.v; case 1: return &TH1.v; case 2: return &TH2.v; case 3: return &TH3.v; case 4: return &TH4.v; case 5: return &TH5.v;
    case 6: return &TH6.v; case 7: return &TH7.v; case 8: return &TH8.v; case 9: return &TH9.v; case 10: return &TH10.v; case 11: return &TH11.v; default: return &TH12.v;
    }
}

// member <=> its back-index points at a slot of the array that holds it
static bool is_member(SleepQueue& S, thread* t)
{
    int i = t->idx;
    return i >= 0 && (size_t)i < S.q.size() && S.q[i] == t;
}
// representation invariant
static void check_inv(SleepQueue& S, size_t expect_size)
{
    CHECK(S.q.size() == expect_size, "heap size is old size +/- the one element");
    for (size_t i = 0; i < NOBJ; i++) {
        if (i >= S.q.size()) break;
        thread* t = S.q[i];
        CHECK(t->idx == (int)i, "back-index: q[i]->idx == i for every slot");
        if (i > 0) CHECK(S.q[(i - 1) >> 1]->ts_wakeup <= t->ts_wakeup, "heap order: parent deadline <= child deadline");
    }
}
static void check_members(SleepQueue& S, int changed, bool now_member)
{
    for (int j = 0; j < NOBJ; j++) {
        bool m = is_member(S, T(j));
        if (j == changed) CHECK(m == now_member, "the pushed/popped element is a member exactly as requested");
        else CHECK(m == mem0[j], "every other thread keeps its membership (multiset of members = old +/- the element)");
        CHECK(T(j)->ts_wakeup == ts0[j], "no deadline is modified by a heap operation");
        if (!m && mem0[j]) CHECK(T(j)->idx == -1, "a removed element has idx == -1");
    }
    if (!S.empty()) {
        thread* f = S.front();
        CHECK(is_member(S, f), "front() is a member");
        for (int j = 0; j < NOBJ; j++) if (is_member(S, T(j))) CHECK(f->ts_wakeup <= T(j)->ts_wakeup, "front() has a minimal deadline among the members");
    }
}

// one step from a heap of exactly n members; instantiated for every constant n <= NMAX (a concrete array shape per case keeps the
// solver's pointer analysis trivial), the harness entry selects the case with a symbolic n
static inline __attribute__((always_inline)) void step(const int n)
{
    SleepQueue& S = *new (&SQs.v) SleepQueue;
#ifndef NORESERVE
    S.q.reserve(NOBJ);                         // constant capacity: no reallocation inside the checked step
#endif                                         // (NORESERVE: the vector grows by itself, push goes through _M_realloc_insert)
    // arbitrary valid heap: slot i holds thread object i (thread objects are interchangeable: every field that the heap reads is symbolic)
    for (int i = 0; i < NOBJ; i++) {
        thread* t = T(i);                      // zero-initialised static storage; the heap reads and writes only idx and ts_wakeup
        t->ts_wakeup = nondet_u64(); ts0[i] = t->ts_wakeup;
        if (i < n) { S.q.push_back(t); t->idx = i; mem0[i] = true; }
        else { t->idx = -1; mem0[i] = false; }
    }
#if OP == 3 || OP == 4
    uint8_t k = nondet_u8(); ASSUME(k < n);
#endif
    for (int i = 1; i < NOBJ; i++) {
        if (i >= n) break;
#if OP == 3          // up(k): the heap is valid except that slot k may be smaller than its ancestors
        if (i == k) continue;
        if (((i - 1) >> 1) == k && k > 0) ASSUME(T((k - 1) >> 1)->ts_wakeup <= T(i)->ts_wakeup);
#elif OP == 4        // down(k): valid except that slot k may be larger than its descendants
        if (((i - 1) >> 1) == k) { if (k > 0) ASSUME(T((k - 1) >> 1)->ts_wakeup <= T(i)->ts_wakeup); continue; }
#endif
        ASSUME(T((i - 1) >> 1)->ts_wakeup <= T(i)->ts_wakeup);
    }

#if OP == 0          // push a new element (idx arbitrary: push must overwrite it)
    thread* x = T(n);
    x->idx = (int)nondet_u32(); ASSUME(!is_member(S, x));
    int r = S.push(x);
    CHECK(r == 0, "push returns 0");
    check_inv(S, n + 1);
    check_members(S, n, true);
    if (n == NMAX) wit[0] = true;
    if (n > 2 && x->idx == 0) wit[1] = true;
    if (n > 0 && x->idx == n) wit[2] = true;
    if (n > 1 && ts0[n] == ts0[0] && ts0[n] == UINT64_MAX) wit[3] = true;
#elif OP == 1        // pop(th): remove a symbolic member from anywhere (the interrupt path); a non-member is refused
    uint8_t k = nondet_u8(); ASSUME(k <= n && k < NOBJ);
    thread* x = T(k);
    bool was = is_member(S, x);
    int r = S.pop(x);
    if (was) {
        CHECK(r == 0, "pop(member) returns 0");
        CHECK(x->idx == -1, "a removed element has idx == -1");
        check_inv(S, n - 1);
        check_members(S, k, false);
        if (n == NMAX && k == 1) wit[0] = true;
        if (k == n - 1) wit[1] = true;
        if (n == 1) wit[2] = true;
        if (n > 3 && k > 0 && k < n - 1 && S.q[k] == T(n - 1)) wit[3] = true;
        if (n > 5 && k > 2 && k < n - 1 && T(n - 1)->idx < k) wit[4] = true;
        if (n > 4 && k < n - 1 && T(n - 1)->idx > k) wit[5] = true;
    } else {
        CHECK(r == -1, "pop(non-member with idx == -1) returns -1");
        check_inv(S, n);
        check_members(S, -1, false);
        wit[6] = true;
    }
#elif OP == 2        // pop_front: remove a minimum (the timeout path)
    ASSUME(n >= 1);
    thread* r = S.pop_front();
    CHECK(r == T(0), "pop_front returns the old front");
    CHECK(r->idx == -1, "a removed element has idx == -1");
    for (int j = 0; j < NOBJ; j++) if (mem0[j]) CHECK(r->ts_wakeup <= ts0[j], "pop_front returns a member with a minimal deadline");
    check_inv(S, n - 1);
    check_members(S, 0, false);
    if (n == 1) wit[0] = true;
    if (n == NMAX) wit[1] = true;
    if (n > 4 && T(n - 1)->idx > 2) wit[2] = true;
#elif OP == 3
    bool r = S.up(k);
    check_inv(S, n);
    check_members(S, -1, false);
    CHECK(r == (T(k)->idx != k), "up() reports whether the element moved");
    if (r) wit[0] = true; else wit[1] = true;
    if (n > 3 && k > 2 && T(k)->idx == 0) wit[2] = true;
#elif OP == 4
    bool r = S.down(k);
    check_inv(S, n);
    check_members(S, -1, false);
    CHECK(r == (T(k)->idx != k), "down() reports whether the element moved");
    if (r) wit[0] = true; else wit[1] = true;
    if (n > 4 && k == 0 && T(0)->idx > 2) wit[2] = true;
#endif
}

extern "C" {
void harness_sleepq()
{
#ifdef NFIX
    step(NFIX); return;
#endif
    uint8_t n = nondet_u8(); ASSUME(n <= NMAX);
    switch (n) {
    case 0: step(0); break;
    case 1: step(1); break;
    case 2: step(2); break;
    case 3: step(3); break;
#if NMAX >= 4
    case 4: step(4); break;
#endif
#if NMAX >= 5
    case 5: step(5); break;
#endif
#if NMAX >= 6
    case 6: step(6); break;
#endif
#if NMAX >= 7
    case 7: step(7); break;
#endif
#if NMAX >= 8
    case 8: step(8); break;
#endif
#if NMAX >= 9
    case 9: step(9); break;
#endif
#if NMAX >= 10
    case 10: step(10); break;
#endif
#if NMAX >= 11
    case 11: step(11); break;
#endif
#if NMAX >= 12
    case 12: step(12); break;
#endif
#if NMAX > 12
#error "NMAX <= 12 (add thread objects and cases)"
#endif
    }
#if OP == 0
    if (wit[0]) WITNESS("push into a heap of NMAX members");
#if NMAX >= 3
    if (wit[1]) WITNESS("pushed element rose to the root");
#endif
    if (wit[2]) WITNESS("pushed element stayed in the last slot");
    if (wit[3]) WITNESS("equal infinite deadlines");
#elif OP == 1
    if (wit[0]) WITNESS("pop from the middle of a full heap");
    if (wit[1]) WITNESS("pop of the last slot");
    if (wit[2]) WITNESS("pop of the only member");
    if (wit[3]) WITNESS("replacement stayed in the hole");
#if NMAX >= 6
    if (wit[4]) WITNESS("replacement moved up from the hole");
#endif
    if (wit[5]) WITNESS("replacement moved down from the hole");
    if (wit[6]) WITNESS("pop of a non-member refused");
#elif OP == 2
    if (wit[0]) WITNESS("pop_front of the only member");
    if (wit[1]) WITNESS("pop_front of a full heap");
    if (wit[2]) WITNESS("replacement sank below the second level");
#elif OP == 3
    if (wit[0]) WITNESS("up moved the element");
    if (wit[1]) WITNESS("up left the element");
    if (wit[2]) WITNESS("up to the root");
#elif OP == 4
    if (wit[0]) WITNESS("down moved the element");
    if (wit[1]) WITNESS("down left the element");
    if (wit[2]) WITNESS("down by two levels");
#endif
}
}
