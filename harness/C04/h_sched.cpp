// C04 (Layer A, parts 2 and 4): the scheduler's wake-up paths, executed sequentially on one vCPU object.
//   harness_resume : ONE call of the real resume_threads() from an arbitrary valid (run list, standbyq, sleep heap, wait queue) state
//   harness_seq    : two consecutive blocking calls (thread_yield / thread_usleep) of one thread; while it is switched out the "other
//                    side" runs a symbolic script made of the REAL thread_interrupt() (same vCPU and cross-vCPU), clock advances and
//                    the REAL resume_threads(), then yields back with the REAL AtomicRunQ::goto_next().  Contract: a call reports an
//                    interrupt only if one was issued during that very call ("one interrupt ends at most one sleep and is never
//                    delivered to a later, unrelated sleep"), returns 0 only after its deadline, -1/EPERM only when shutting down.
//   harness_idler  : one round of the real idler(): the engine wait never exceeds the time to the earliest deadline.
// Real code: thread/thread.cpp (textual include: thread, vcpu_t, SleepQueue, RunQ/AtomicRunQ, resume_threads, thread_interrupt,
// prelocked_thread_interrupt, thread_yield, thread_usleep, do_thread_usleep, do_shutdown_usleep, prepare_usleep, idler), thread/list.h.
// The context switch itself (inline asm) is replaced: switch_context(from,to) -> verif_switch(from,to) below (ir2c --map).
#include "verif_h.h"
#include "nolog.h"
#include "thread/thread.cpp"
using namespace photon;
#ifdef NO_WITNESS            // debugging aid: only the real assertions
#undef WITNESS
#define WITNESS(m) ((void)0)
#endif

#ifndef NTH
#define NTH 3               // threads besides the running one
#endif

static Raw<thread> TH0, TH1, TH2, TH3, TH4, TH5;       // separate objects: every field is its own solver variable
static Raw<vcpu_t> VC;
static Raw<thread_list> WQ;                             // one wait queue (a mutex / condition variable / semaphore list)
static inline thread* T(int i)
{
    switch (i) { case 0: return &TH0.v; case 1: return &TH1.v; case 2: return &TH2.v; case 3: return &TH3.v; case 4: return &TH4.v; default: return &TH5.v; }
}
struct Eng : public MasterEventEngine {
    int cancels, waits; uint64_t last_usec;
    int wait_for_fd(int, uint32_t, Timeout) override { return -1; }
    ssize_t wait_and_fire_events(uint64_t t) override { waits++; last_usec = t; VC.v.state = states::DONE; return 0; }   // ends the idler's loop
    int cancel_wait() override { cancels++; return 0; }
};
static Raw<Eng> ENG;
// clock source stand-in (ir2c --map of photon::update_now, i.e. clock_gettime + the us conversion): the refreshed runtime clock is any
// value not earlier than the current one
extern "C" NOINL uint64_t verif_update_now()
{
    uint64_t c = nondet_u64(); ASSUME(c >= photon::now);
    photon::now = c;
    return c;
}
static void init_thread(thread* t, uint16_t st)
{   // zero-initialised static storage + the fields thread's constructor sets
    t->__prev_ptr = t->__next_ptr = t;
    t->idx = -1; t->state = st; t->vcpu = &VC.v; t->waitq = nullptr; t->error_number = 0;
}
static vcpu_t* init_vcpu(int cap)
{
    vcpu_t* vc = &VC.v;
    vc->master_event_engine = new (&ENG.v) Eng;
    vc->state = states::RUNNING; vc->flags = 0;
    vc->sleepq.q.reserve(cap);
    // the clock: either a timestamp updater thread is running (if_update_now() is a no-op, photon::now is whatever it last stored),
    // or the scheduler refreshes it itself when rdtsc (arbitrary) moved, through update_now() (verif_update_now: arbitrary monotone)
    ts_updater.store(nondet_bool() ? 1 : 0);
    return vc;
}
static bool in_heap(vcpu_t* vc, thread* t) { int i = t->idx; return i >= 0 && (size_t)i < vc->sleepq.q.size() && vc->sleepq.q[i] == t; }
static void check_heap(vcpu_t* vc)
{
    auto& q = vc->sleepq.q;
    for (size_t i = 0; i < NTH + 1; i++) {
        if (i >= q.size()) break;
        CHECK(q[i]->idx == (int)i, "sleep heap: back-index of every slot");
        if (i > 0) CHECK(q[(i - 1) >> 1]->ts_wakeup <= q[i]->ts_wakeup, "sleep heap: parent deadline <= child deadline");
    }
}

// =====================================================================================================================
#ifdef H_RESUME
static uint8_t kind0[NTH + 1]; static uint64_t ts0[NTH + 1]; static int err0[NTH + 1];
static bool inrun[NTH + 1], inwq[NTH + 1];
enum { K_SLEEP = 0, K_SLEEP_WQ = 1, K_STANDBY_HEAP = 2, K_STANDBY = 3, K_READY = 4 };

// membership in a circular list starting at head (head itself included), well-formedness of the links
static void walk(thread* head, bool* mark, bool& ok)
{
    for (int i = 0; i <= NTH; i++) mark[i] = false;
    ok = false;
    if (!head) { ok = true; return; }
    thread* p = head;
    for (int k = 0; k <= NTH + 1; k++) {
        for (int i = 0; i <= NTH; i++) if (p == T(i)) { CHECK(!mark[i], "a thread is linked once in its list"); mark[i] = true; }
        CHECK(p->next()->prev() == p, "list links are consistent");
        p = p->next();
        if (p == head) { ok = true; break; }
    }
}

extern "C" void harness_resume()
{
    vcpu_t* vc = init_vcpu(NTH + 1);
    thread_list& wq = *new (&WQ.v) thread_list;
    photon::now = nondet_u64();
    thread* me = T(0); init_thread(me, states::RUNNING); CURRENT = me;
    uint8_t m = 0;
    for (int i = 1; i <= NTH; i++) {
        thread* t = T(i);
        uint8_t k = nondet_u8(); ASSUME(k < 5); kind0[i] = k;
        init_thread(t, k <= K_SLEEP_WQ ? states::SLEEPING : k <= K_STANDBY ? states::STANDBY : states::READY);
        t->ts_wakeup = ts0[i] = nondet_u64();
        t->error_number = err0[i] = (int)nondet_u32();
        bool front = nondet_bool();
        if (k == K_SLEEP_WQ) { t->waitq = &wq; if (front) wq.push_front(t); else wq.push_back(t); }
        if (k == K_STANDBY_HEAP || k == K_STANDBY) { if (front) vc->standbyq.push_front(t); else vc->standbyq.push_back(t); }
        if (k == K_READY) { if (front) me->insert_after(t); else me->insert_tail(t); }
        if (k <= K_STANDBY_HEAP) m++;
    }
    // the sleep heap: m members in arbitrary distinct slots, heap-ordered
    for (int i = 0; i < NTH; i++) { if (i >= m) break; vc->sleepq.q.push_back(nullptr); }
    for (int i = 1; i <= NTH; i++) {
        if (kind0[i] > K_STANDBY_HEAP) continue;
        uint8_t p = nondet_u8(); ASSUME(p < m); ASSUME(vc->sleepq.q[p] == nullptr);
        vc->sleepq.q[p] = T(i); T(i)->idx = p;
    }
    for (int j = 1; j < NTH; j++) { if (j >= m) break; ASSUME(vc->sleepq.q[(j - 1) >> 1]->ts_wakeup <= vc->sleepq.q[j]->ts_wakeup); }
    uint64_t clk0 = photon::now;
    RunQ rq;
    int ret = resume_threads(vc, rq);
    uint64_t clk = photon::now;                 // the clock value the scheduler used (it may refresh the clock first)
    CHECK(clk >= clk0, "the runtime clock never goes back");

    bool ok;
    walk(me, inrun, ok);      CHECK(ok, "run list is a well-formed circular list through the running thread");
    walk(wq.node, inwq, ok);  CHECK(ok, "wait queue is a well-formed circular list");
    CHECK(CURRENT == me && me->state == states::RUNNING, "the running thread stays current and RUNNING");
    CHECK(vc->standbyq.node == nullptr, "standbyq is drained");
    CHECK(!vc->runq_lock.foreground_locked.load() && !vc->runq_lock.background_locked.load() && !vc->standbyq.lock.locked() && !wq.lock.locked(),
          "run-queue, standbyq and wait-queue locks released");                                                            // (-fno-access-control)
    check_heap(vc);
    int moved = 0, expired_sleepers = 0, standby = 0; bool moved_wq = false, kept_wq = false;
    for (int i = 1; i <= NTH; i++) {
        thread* t = T(i); uint8_t k = kind0[i];
        bool expired = ts0[i] <= clk;
        bool should = (k == K_STANDBY_HEAP || k == K_STANDBY) || (k <= K_SLEEP_WQ && expired);
        CHECK(t->ts_wakeup == ts0[i], "deadlines are not modified");
        CHECK(t->error_number == err0[i], "resume never touches a wake-up reason: a timeout wake-up leaves error_number as it was (0)");
        CHECK(!t->lock.locked(), "thread lock released");
        if (k == K_READY) { CHECK(inrun[i] && t->state == states::READY, "a READY thread stays in the run list"); continue; }
        CHECK(inrun[i] == should, "moved to the run list <=> was STANDBY, or SLEEPING with an expired deadline");
        if (inrun[i]) {
            moved++;
            CHECK(t->state == states::READY, "a resumed thread is READY");
            CHECK(t->waitq == nullptr && !inwq[i], "a resumed thread is out of its wait queue");
            CHECK(t->idx == -1 && !in_heap(vc, t), "a resumed thread is out of the sleep heap with idx == -1");
            if (k <= K_SLEEP_WQ) expired_sleepers++; else standby++;
            if (k == K_SLEEP_WQ) moved_wq = true;
        } else {
            if (k == K_SLEEP_WQ) kept_wq = true;
            CHECK(t->state == states::SLEEPING, "a sleeper that is not due keeps sleeping");
            CHECK(in_heap(vc, t), "a sleeper that is not due stays in the heap");
            CHECK(t->ts_wakeup > clk, "no remaining heap member has ts_wakeup <= now");
            CHECK(inwq[i] == (k == K_SLEEP_WQ) && t->waitq == (k == K_SLEEP_WQ ? &wq : nullptr), "a sleeper that is not due stays in its wait queue");
        }
    }
    CHECK(inrun[0], "running thread in the run list");
    CHECK(ret == moved, "resume_threads returns the number of threads made runnable");
    if (expired_sleepers >= 2) WITNESS("two sleepers woken by timeout");
    if (expired_sleepers && standby) WITNESS("timeout and standby wake-ups in one round");
    if (standby >= 2) WITNESS("two standby threads resumed");
    if (moved == 0 && m > 0) WITNESS("nobody due");
    if (moved && !vc->sleepq.q.empty()) WITNESS("some resumed, some keep sleeping");
    if (moved_wq && kept_wq) WITNESS("timeout of a wait-queue member while another keeps waiting");
}
#endif

// =====================================================================================================================
#if defined(H_SEQ) || defined(H_IDLER)
#ifndef NEV
#define NEV 2               // interrupts of the other side per switch-out (1: before the scheduling round, 2: + one after it, 3: + a second one before)
#endif
#define ME (&TH0.v)
#define OTHER (&TH1.v)      // the thread that runs while ME is switched out (stands for the idler / any other thread of the vCPU)
#define SLEEPER (&TH2.v)    // an unrelated sleeper on the same vCPU
static int n_intr;          // interrupts issued against ME during the current blocking call
static int reason[NEV + 1];
static bool woke_sleeper;
static int call_no;         // 1, 2: which blocking call of ME is in progress

static void interrupt_me(bool cross)
{
    int e = (int)nondet_u32(); ASSUME(e != 0);
    thread* saved = CURRENT;
    if (cross) CURRENT = nullptr;          // issued by an OS thread that runs no photon thread of this vCPU: the cross-vCPU branch
    thread_interrupt(ME, e);
    if (cross) CURRENT = saved;
    if (n_intr <= NEV) reason[n_intr] = e;
    n_intr++;
}
// stands for the context switch: "from" is switched out, "to" runs.  Everything that may happen until "from" runs again:
extern "C" NOINL void verif_switch(thread* from, thread* to)
{
    vcpu_t* vc = &VC.v;
    CHECK(CURRENT == to && to->state == states::RUNNING, "the switch target is current and RUNNING");
    CHECK(from->state != states::RUNNING, "the thread switched out is not RUNNING");
#ifdef H_SEQ
    // the other side's script while "from" is switched out.  Canonical order (a resume_threads() round that finds nobody due is a
    // no-op - harness_resume - so more rounds add nothing): interrupts that find the thread SLEEPING / STANDBY / already READY,
    // the clock advancing, one scheduling round, an interrupt that finds the thread READY after the round, then the yield back.
    bool ia = nondet_bool(), ca = nondet_bool(), adv = nondet_bool(), ib = nondet_bool(), cb = nondet_bool();
#ifdef FIRST          // the first call's wake-up cause fixed per job (keeps the state before the second call almost concrete)
    if (call_no == 1) {
        ia = (FIRST == 1 || FIRST == 2); ca = (FIRST == 2);      // 1: same-vCPU interrupt while sleeping, 2: cross-vCPU interrupt
        if (FIRST == 0 || FIRST == 3) adv = true;                // 0: plain timeout, 3: timeout, then an interrupt before the thread runs
        ib = (FIRST == 3);
    }
#endif
    if (ia) interrupt_me(ca);
#if NEV >= 3
    if (nondet_bool()) interrupt_me(nondet_bool());
#endif
    if (adv) { uint64_t c = nondet_u64(); ASSUME(c >= photon::now); photon::now = c; }
    { RunQ rq; resume_threads(vc, rq); }
#if NEV >= 2
    if (ib) interrupt_me(cb);
#endif
#endif
    // the running thread gives up the processor (an unrelated woken sleeper runs and yields, too); executions in which "from" is next
    for (int s = 0; s < 2; s++) {
        if (CURRENT == from) break;
        AtomicRunQ().goto_next();
        if (CURRENT == SLEEPER) woke_sleeper = true;
    }
    ASSUME(CURRENT == from && from->state == states::RUNNING);
#ifdef H_SEQ
    // "cut": what must hold whenever a thread runs again is CHECKed and then re-stated as plain assignments (no-ops when the checks
    // hold; when one fails it is reported) - the next call then starts from a concrete run list instead of a case distinction
    CURRENT = from; from->state = states::RUNNING;
    CHECK(from->idx == -1, "a thread that runs again is out of the sleep heap (idx == -1)"); from->idx = -1;
    CHECK(from->waitq == nullptr, "a thread that runs again is in no wait queue"); from->waitq = nullptr;
#ifdef WAITQ
    CHECK(WQ.v.node == nullptr && !WQ.v.lock.locked(), "the wait queue is empty again and unlocked"); WQ.v.node = nullptr; WQ.v.lock.unlock();
#endif
    CHECK(vc->standbyq.node == nullptr, "standbyq drained before the thread runs again"); vc->standbyq.node = nullptr;
    CHECK(!from->lock.locked() && !OTHER->lock.locked() && !vc->standbyq.lock.locked(), "no scheduler lock is held across a switch");
    CHECK(!vc->runq_lock.foreground_locked.load() && !vc->runq_lock.background_locked.load(), "run-queue lock released");   // (-fno-access-control)
    from->lock.unlock(); OTHER->lock.unlock(); vc->standbyq.lock.unlock(); vc->runq_lock.foreground_unlock();
#ifndef WITH_SLEEPER
    CHECK(OTHER->state == states::READY, "the thread that yielded is READY"); OTHER->state = states::READY;
    CHECK(from->next() == OTHER && from->prev() == OTHER && OTHER->next() == from && OTHER->prev() == from, "run list = {resumed thread, the other one}");
    from->__next_ptr = from->__prev_ptr = OTHER; OTHER->__next_ptr = OTHER->__prev_ptr = from;
    CHECK(vc->sleepq.empty(), "sleep heap empty again"); vc->sleepq.q.clear();
#endif
#endif
}
#endif

#ifdef H_SEQ
static void begin_call() { n_intr = 0; errno = 0; call_no++; }
static bool is_reason(int e) { for (int i = 0; i <= NEV; i++) if (i < n_intr && reason[i] == e) return true; return false; }
static void check_sleep(int r, uint64_t c_begin, uint64_t x, bool shutting)
{
    int e = errno;
    CHECK(r == 0 || r == -1, "thread_usleep returns 0 or -1");
    CHECK(ME->idx == -1 && ME->waitq == nullptr && ME->state == states::RUNNING, "after a sleep the thread is RUNNING, out of the heap");
    uint64_t dl = c_begin > UINT64_MAX - x ? UINT64_MAX : c_begin + x, cap = c_begin > UINT64_MAX - 10000 ? UINT64_MAX : c_begin + 10000;
    if (x != 0 && dl > c_begin)     // not already expired at the call: a real sleep
        CHECK(ME->ts_wakeup == (shutting && cap < dl ? cap : dl), "the deadline put into the sleep heap is now + t, capped at now + 10ms when shutting down");
    if (r == 0) {
        CHECK(n_intr == 0, "thread_usleep returns 0 only if no interrupt was issued during the sleep");
        CHECK(photon::now - c_begin >= x || photon::now == UINT64_MAX, "thread_usleep returns 0 only after at least t has elapsed on the runtime clock");
        CHECK(!shutting || x == 0 || c_begin == UINT64_MAX, "a thread that is shutting down never gets 0 from a real sleep");
    } else if (n_intr == 0) {
        CHECK(shutting, "thread_usleep returns -1 without an interrupt during this sleep: a stale interrupt was delivered to an unrelated sleep");
        CHECK(!shutting || e == EPERM, "shutdown sleep reports EPERM");
        if (shutting && x != 0) CHECK(photon::now - c_begin >= (x < 10000 ? x : 10000) || photon::now == UINT64_MAX, "shutdown sleep lasts min(t, 10ms)");
    } else {
        CHECK(is_reason(e), "thread_usleep returns -1 with the errno of an interrupt issued during this sleep");
    }
}
static void check_yield(int r)
{
    if (r != 0) CHECK(n_intr > 0 && is_reason(r), "thread_yield reports only an interrupt issued during this yield");
    else CHECK(n_intr == 0, "an interrupt issued during a yield is reported by it");
}
static int do_sleep(bool& shutting, uint64_t& c_begin, uint64_t& x)
{
    x = nondet_u64(); c_begin = photon::now;
#ifdef REAL1          // the first sleep is a real one (deadline in the future): the expired-timeout path is thread_yield, see SCN 1 / 3
    if (call_no == 0) ASSUME(x != 0 && c_begin + x > c_begin);
#endif
    shutting = ME->is_shutting_down();
    begin_call();
#ifdef WAITQ          // the internal variant used by mutex / condition_variable / semaphore: the sleeper is also linked into a wait queue
    return thread_usleep(Timeout(x), &WQ.v);
#else
    return thread_usleep(Timeout(x));
#endif
}

extern "C" void harness_seq()
{
    vcpu_t* vc = init_vcpu(4);
    photon::now = nondet_u64();
    init_thread(ME, states::RUNNING); init_thread(OTHER, states::READY);
    ME->insert_tail(OTHER); CURRENT = ME;
#ifdef SHUTDOWN
    if (nondet_bool()) ME->set_shutting_down();
#endif
#ifdef WITH_SLEEPER
    init_thread(SLEEPER, states::SLEEPING); SLEEPER->ts_wakeup = nondet_u64(); vc->sleepq.push(SLEEPER);
#endif
    bool sh; uint64_t c0, x; int r;
#if SCN == 4          // ME has not run yet (READY, never inside a blocking call); it is interrupted, then scheduled and sleeps
    ME->state = states::READY; OTHER->state = states::RUNNING; CURRENT = OTHER;
    interrupt_me(nondet_bool());
    AtomicRunQ().goto_next();
    ASSUME(CURRENT == ME);
    r = do_sleep(sh, c0, x); check_sleep(r, c0, x, sh);
    if (r == -1) WITNESS("first sleep of the new thread reports -1");
#else
    // first blocking call
#if SCN == 1 || SCN == 3
    begin_call(); r = thread_yield(); check_yield(r);
    if (r) WITNESS("first call: yield reported an interrupt"); else WITNESS("first call: yield returned 0");
#else
    r = do_sleep(sh, c0, x); check_sleep(r, c0, x, sh);
#if !defined(FIRST) || FIRST == 0
    if (r == 0) WITNESS("first call: slept well");
#endif
#if !defined(FIRST) || FIRST != 0
    if (r == -1 && n_intr == 1) WITNESS("first call: sleep interrupted once");
#endif
#if !defined(FIRST) && NEV >= 2
    if (r == -1 && n_intr == 2) WITNESS("first call: sleep interrupted twice");
#endif
#endif
    // second blocking call
#if SCN == 1 || SCN == 2
    r = do_sleep(sh, c0, x); check_sleep(r, c0, x, sh);
    if (r == 0 && x > 0) WITNESS("second call: slept well");
    if (r == -1 && n_intr) WITNESS("second call: sleep interrupted");
#else
    begin_call(); r = thread_yield(); check_yield(r);
    if (r) WITNESS("second call: yield reported an interrupt"); else WITNESS("second call: yield returned 0");
#endif
#endif
    CHECK(!ME->lock.locked() && !OTHER->lock.locked(), "thread locks released");
    check_heap(vc);
#ifdef WITH_SLEEPER
    if (woke_sleeper) WITNESS("the unrelated sleeper was woken in between");
    if (SLEEPER->state == states::SLEEPING) CHECK(in_heap(vc, SLEEPER), "the unrelated sleeper is still in the heap");
#endif
}
#endif

// =====================================================================================================================
#ifdef H_IDLER
extern "C" void harness_idler()
{
    vcpu_t* vc = init_vcpu(NTH + 1);
    photon::now = nondet_u64();
    thread* idle = T(0); init_thread(idle, states::RUNNING); CURRENT = idle; vc->idle_worker = idle;
    // only the idler is runnable; m sleepers in a valid heap (slot i holds thread i+1), none of them due, standbyq empty
    uint8_t m = nondet_u8(); ASSUME(m <= NTH);
    for (int i = 0; i < NTH; i++) {
        if (i >= m) break;
        thread* t = T(i + 1); init_thread(t, states::SLEEPING);
        t->ts_wakeup = nondet_u64(); t->idx = i; vc->sleepq.q.push_back(t);
        if (i > 0) ASSUME(T(((i - 1) >> 1) + 1)->ts_wakeup <= t->ts_wakeup);
        ASSUME(t->ts_wakeup > photon::now);
    }
    ts_updater.store(1);                      // the clock is not refreshed by the idler itself during this round (a refresh that makes a sleeper due
                                              // leads to the resume path = harness_resume, and the woken threads would have to run)
    uint64_t clk = photon::now;
    idler(nullptr);
    Eng& e = ENG.v;
    CHECK(e.waits == 1, "the idler waits in the event engine once per round");
    uint64_t cap = 10 * 1024 * 1024;
    for (int i = 0; i < NTH; i++) { if (i >= m) break; if (T(i + 1)->state == states::SLEEPING) CHECK(e.last_usec <= T(i + 1)->ts_wakeup - clk, "the engine wait does not exceed the time to any sleeper's deadline"); }
    CHECK(e.last_usec <= cap, "the engine wait is capped at 10*2^20 us");
    if (m == 0) CHECK(e.last_usec == cap, "no sleeper: maximal wait");
    else CHECK(e.last_usec == (T(1)->ts_wakeup - clk < cap ? T(1)->ts_wakeup - clk : cap), "wait == min(cap, earliest deadline - now)");
    if (m == 0) WITNESS("idle with no sleeper");
    if (m == NTH && e.last_usec < cap) WITNESS("wait bounded by the earliest deadline");
    if (m > 0 && e.last_usec == cap) WITNESS("wait capped");
    if (m > 0 && T(1)->ts_wakeup == UINT64_MAX) WITNESS("only infinite sleepers");
}
#endif
