// Native reproduction of the C04 findings (not a harness TU; not run by ./check).
// build: g++ -std=c++14 -O1 -I/repo/include native_repro_stale_interrupt.cpp -o repro -L/repo/_build/output -lphoton -lpthread -Wl,-rpath,/repo/_build/output
// observed on the unchanged tree:
//   A: main: T state=0 (READY=0)
//   A: thread_yield() returned 125 (ECANCELED=125)
//   A: later thread_usleep(200ms) returned -1 errno=125 after 200238 us
//   A: third thread_usleep(100ms) returned 0 errno=0 after 100373 us
//   B: first thread_usleep(150ms) of a thread interrupted before it ever ran: -1 errno=4 after 150747 us
#include <photon/photon.h>
#include <photon/thread/thread.h>
#include <photon/thread/thread11.h>
#include <photon/common/alog.h>
#include <errno.h>
#include <stdio.h>
#include <time.h>
using namespace photon;
static uint64_t mono_us(){ timespec t; clock_gettime(CLOCK_MONOTONIC,&t); return t.tv_sec*1000000ull+t.tv_nsec/1000; }
static thread* T; static volatile int phase=0;
int main(){
    log_output_level = ALOG_ERROR;
    if (photon::init(INIT_EVENT_DEFAULT, INIT_IO_NONE)) { printf("init failed\n"); return 2; }
    // scenario A: interrupt arrives while target is inside thread_yield()
    auto th = thread_create11([&]{
        T = CURRENT; phase = 1;
        errno = 0;
        int r = thread_yield();               // main interrupts us while we are READY in here
        printf("A: thread_yield() returned %d (ECANCELED=%d)\n", r, ECANCELED);
        errno = 0;
        uint64_t t0 = mono_us();
        int s = thread_usleep(200*1000);       // nobody interrupts this one
        uint64_t dt = mono_us()-t0;
        printf("A: later thread_usleep(200ms) returned %d errno=%d after %lu us\n", s, errno, (unsigned long)dt);
        errno = 0; t0 = mono_us();
        s = thread_usleep(100*1000);
        dt = mono_us()-t0;
        printf("A: third thread_usleep(100ms) returned %d errno=%d after %lu us\n", s, errno, (unsigned long)dt);
        phase = 2;
    });
    thread_enable_join(th);
    thread_yield();                            // let T start; T yields back to us
    printf("A: main: T state=%d (READY=%d)\n", (int)thread_stat(T), (int)READY);
    thread_interrupt(T, ECANCELED);
    thread_join((join_handle*)th);

    // scenario B: interrupt arrives while the target is READY but not inside a yield (just created, never ran)
    auto th2 = thread_create11([&]{
        errno = 0; uint64_t t0 = mono_us();
        int s = thread_usleep(150*1000);
        uint64_t dt = mono_us()-t0;
        printf("B: first thread_usleep(150ms) of a thread interrupted before it ever ran: %d errno=%d after %lu us\n", s, errno, (unsigned long)dt);
    });
    thread_enable_join(th2);
    thread_interrupt(th2, EINTR);
    thread_join((join_handle*)th2);
    photon::fini();
    return 0;
}
