// C04 (part 3): Timeout arithmetic on the runtime clock photon::now (common/timeout.h), full 64-bit symbolic clock and arguments.
//   Timeout(x) saturates (now + x never wraps), expired() <=> expiration <= now, timeout() == saturating difference,
//   timeout_at_most() only ever shortens, and - the sleep contract seen from the arithmetic - a deadline computed at clock c0 from
//   a duration x is not reported expired at a later clock c1 unless at least x has elapsed (or the 64-bit clock itself has ended).
// Real code: photon::Timeout, photon::sat_add / sat_sub (common/utility.h), the clock variable photon::now (thread/thread.cpp).
#include "verif_h.h"
#include "nolog.h"
#include "thread/thread.cpp"
using namespace photon;

static inline uint64_t ref_sat_add(uint64_t a, uint64_t b) { return a > UINT64_MAX - b ? UINT64_MAX : a + b; }
static inline uint64_t ref_sat_sub(uint64_t a, uint64_t b) { return a > b ? a - b : 0; }

extern "C" {
void harness_timeout()
{
    uint64_t c0 = nondet_u64(), x = nondet_u64();
    photon::now = c0;
    Timeout t(x);
    uint64_t e = t.expiration();
    // construction: 0 means "already expired", otherwise a saturating deadline
    if (x == 0) CHECK(e == 0, "Timeout(0) has expiration 0");
    else {
        CHECK(e == ref_sat_add(c0, x), "Timeout(x) == now + x, saturated at UINT64_MAX");
        CHECK(e >= c0 && e >= x, "the deadline never wraps around");
    }
    Timeout inf;
    CHECK(inf.expiration() == UINT64_MAX, "default Timeout is the infinite deadline");
    // the clock advances (monotone) by an arbitrary amount
    uint64_t c1 = nondet_u64(); ASSUME(c1 >= c0);
    photon::now = c1;
    CHECK(t.expired() == (e <= c1), "expired() <=> expiration <= now");
    CHECK(t.timeout() == ref_sat_sub(e, c1), "timeout() is the saturating distance to the deadline");
    CHECK((uint64_t)t == t.timeout() && t.timeout_us() == t.timeout(), "conversion operators agree with timeout()");
    CHECK(t.expired() == (t.timeout() == 0), "expired() <=> nothing left to wait");
    if (t.expired() && x != 0) CHECK(c1 - c0 >= x || c1 == UINT64_MAX, "a deadline is only reported expired after at least x on the clock (or at the end of the 64-bit clock)");
    if (!t.expired()) CHECK(c1 - c0 < x, "a deadline that is not expired has had less than x elapsed");
    CHECK(inf.expired() == (c1 == UINT64_MAX), "the infinite deadline expires only at the end of the 64-bit clock");
    if (t.expired() && x != 0 && c1 != UINT64_MAX) WITNESS("expired after x elapsed");
    if (!t.expired() && c1 > c0) WITNESS("still pending after the clock advanced");
    if (x != 0 && e == UINT64_MAX && c0 != 0 && x != UINT64_MAX) WITNESS("saturated deadline");

    // timeout_at_most(y): cap the remaining time at y from now, never lengthen
    uint64_t y = nondet_u64();
    Timeout u = t;
    Timeout& r = u.timeout_at_most(y);
    CHECK(&r == &u, "timeout_at_most returns *this");
    uint64_t cap = ref_sat_add(c1, y);
    CHECK(u.expiration() == (e < cap ? e : cap), "timeout_at_most: expiration = min(old, now + y saturated)");
    CHECK(u.expiration() <= e, "timeout_at_most never lengthens a deadline");
    CHECK(u.timeout() <= y, "after timeout_at_most(y) at most y remains");
    if (u.expiration() < e) WITNESS("deadline shortened"); else WITNESS("deadline kept");
    // the shutdown cap used by do_shutdown_usleep: at most 10 ms remain, whatever the requested timeout was (including infinite)
    Timeout s = inf; s.timeout_at_most(10 * 1000);
    CHECK(s.timeout() <= 10 * 1000, "shutdown cap: an infinite sleep is cut to <= 10ms");
    if (c1 <= UINT64_MAX - 10 * 1000) CHECK(s.expiration() == c1 + 10 * 1000, "shutdown cap: deadline is now + 10ms");

    // re-arming: timeout(z) / operator=(z) set now + z saturated (no special case for 0: the deadline is "now", i.e. expired)
    uint64_t z = nondet_u64();
    Timeout v; uint64_t rv = v.timeout(z);
    CHECK(rv == ref_sat_add(c1, z) && v.expiration() == rv, "timeout(z) re-arms to now + z saturated");
    Timeout w; w = z;
    CHECK(w.expiration() == rv, "operator=(z) re-arms like timeout(z)");
    if (z == 0) CHECK(v.expired(), "re-armed with 0 is expired");
    v.expiration(z);
    CHECK(v.expiration() == z, "expiration(z) sets the absolute deadline");
}

// ordering of deadlines: the relational operators agree with the order of the absolute expirations
void harness_timeout_cmp()
{
    uint64_t a = nondet_u64(), b = nondet_u64();
    photon::now = nondet_u64();
    Timeout A, B; A.expiration(a); B.expiration(b);
    CHECK((A < B) == (a < b), "operator< orders by expiration");
    CHECK((A > B) == (a > b), "operator> orders by expiration");
    CHECK((A >= B) == (a >= b), "operator>= orders by expiration");
    CHECK((A == B) == (a == b), "operator== compares expirations");
#ifdef WITH_LE
    CHECK((A <= B) == (a <= b), "operator<= orders by expiration (true for equal deadlines)");
#endif
    if (a == b) WITNESS("equal deadlines"); else WITNESS("different deadlines");
}
}
