import os, importlib.util
from vlib import Job
_spec = importlib.util.spec_from_file_location('c01jobs', os.path.join(os.path.dirname(__file__), '..', 'C01', 'jobs.py'))
_c01 = importlib.util.module_from_spec(_spec); _spec.loader.exec_module(_c01)
ksjob = _c01.ksjob

META = dict(
    bounds='2 concurrent callers on one vCPU, <= 3 responses in any order (outstanding tags, an unknown tag), blocking points inside do_completion / do_collect (symbolic), per-call deadline never / finite, <= 10 slices',
    outside='StubImpl / Skeleton (rpc.cpp) and real sockets; more callers; duplicate tags and stream errors (separate thorough jobs); mutex / cv / thread_interrupt internals (contracts)',
    assumptions=['contract-level sync layer rt/ksync.h', 'callbacks are dispatched through a harness-side specialisation of the Callback delegate (direct calls instead of function pointers)',
                 'std::unordered_map<tag, context*> replaced by a 4-slot array stand-in with the same find / insert / erase contract', 'operator new never fails; call contexts live in heap blocks freed when the call returns'],
)
SRC = 'C11/h_ooo.cpp'
def jobs(tier):
    q = tier == 'quick'
    J = []
    J.append(ksjob('ooo_1resp_deadline', SRC, 2, 5, ['NRESP=1', 'YIELD_IN_COMPLETION'], desc='2 callers, 1 response for either caller (or an unknown tag) then the stream fails, blocking header and body reads, '
                   'per-call deadline never / finite falling at any blocking point', stuck_legal=True, timeout=1500, unwind=2, mem_gb=8, exact_unwind=True))
    if not q:
        J.append(ksjob('ooo_3callers_1resp', SRC, 3, 8, ['NRESP=1', 'YIELD_IN_COMPLETION'], desc='3 callers, 1 response for any of them (or an unknown tag) then the stream fails, blocking header and body reads, deadlines at any blocking point: a third caller returning while the reader collects for a timed-out follower',
                       stuck_legal=True, timeout=6000, unwind=2, mem_gb=20, exact_unwind=True))
    if os.environ.get('VERIF_EXPERIMENTAL'):      # 2 responses x 7 slices: never ran to completion in this session
        J.append(ksjob('ooo_2resp', SRC, 2, 7, ['NRESP=2', 'YIELD_IN_COMPLETION'], desc='2 callers, <= 2 responses in any order (own, the other caller\'s, unknown tag), blocking header and body reads, symbolic deadlines',
                       stuck_legal=True, timeout=6000, unwind=3, mem_gb=30, exact_unwind=True))
    return J
