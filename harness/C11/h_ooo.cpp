// C11 (RPC out-of-order engine): each call gets its own response or an error, and once a call has returned neither the
// engine nor another caller touches that call's context / buffers.
// Real code: rpc/out-of-order-execution.cpp (OooEngine::issue_operation / wait_completion / issue_wait, included textually) with the
// real std::unordered_map (header code; bucket policy stand-in below) and the real spinlock phaselock.
// mutex / condition_variable / thread_interrupt are contracts (rt/ksync.h).  Callers run on one vCPU (cooperative switching at
// blocking points: contract waits and the yields inside the do_* callbacks, which model blocking socket I/O).
#include "verif_h.h"
#include "nolog.h"
#include <unordered_map>
#include "ksync.h"
#include <photon/common/callback.h>
namespace photon { namespace rpc { struct OutOfOrderContext; } }
static inline __attribute__((always_inline)) int cb_dispatch(int kind, photon::rpc::OutOfOrderContext* x);
// harness-side specialisation of the delegate used for the three OutOfOrderContext callbacks: a direct (inlinable) dispatch instead of a
// function pointer, so that the blocking points inside the callbacks are context-switch points of the calling thread entry
template<> struct Delegate<int, photon::rpc::OutOfOrderContext*> : public Delegate_Base {
    int kind = 0;
    inline __attribute__((always_inline)) int operator()(photon::rpc::OutOfOrderContext* x) const { return cb_dispatch(kind, x); }
    template<class...A> void bind(A&&...) { }      // only used by the example code in the header
};
// Stand-in for the engine's std::unordered_map<tag, context*> (libstdc++ container code is outside the property; the real hash
// table costs > 100 k symbolic-execution steps per insert): a small array (one slot per caller) with the same lookup / insert / erase contract.
#if KN <= 2
#define MAPSLOTS 2
#else
#define MAPSLOTS 3
#endif
namespace std {
template<> class unordered_map<uint64_t, photon::rpc::OutOfOrderContext*> {
public:
    struct Slot { bool used; uint64_t first; photon::rpc::OutOfOrderContext* second; };
    typedef Slot* iterator;
    Slot s[MAPSLOTS];
    // loop-free (one slot per caller, written out for 2 or 3): the leader loop of the engine then fixes the unwinding bound alone
#if MAPSLOTS == 2
#define M_EACH(M) M(0) M(1)
#else
#define M_EACH(M) M(0) M(1) M(2)
#endif
    unordered_map() {
#define M_I(i) s[i].used = false; s[i].first = 0; s[i].second = nullptr;
        M_EACH(M_I)
#undef M_I
    }
    iterator end() { return s + MAPSLOTS; }
    iterator find(uint64_t k) {
#define M_F(i) if (s[i].used && s[i].first == k) return &s[i];
        M_EACH(M_F)
#undef M_F
        return end();
    }
    std::pair<iterator, bool> insert(std::pair<uint64_t, photon::rpc::OutOfOrderContext*> v) {
        iterator f = find(v.first); if (f != end()) return {f, false};
#define M_N(i) if (!s[i].used) { s[i].used = true; s[i].first = v.first; s[i].second = v.second; return {&s[i], true}; }
        M_EACH(M_N)
#undef M_N
        __CPROVER_assume(false); return {end(), false};
    }
    size_t erase(uint64_t k) { iterator f = find(k); if (f == end()) return 0; f->used = false; return 1; }
    iterator erase(iterator it) { it->used = false; return it + 1; }
    size_t size() const {
        size_t n = 0;
#define M_C(i) n += (size_t)s[i].used;
        M_EACH(M_C)
#undef M_C
        return n;
    }
};
}
#include "rpc/out-of-order-execution.cpp"
using namespace photon; using namespace photon::rpc;


static Raw<OooEngine> E;
#ifndef NRESP
#define NRESP 2
#endif
static int owner_of_tag[KN + 3];          // tag -> caller (tags are handed out 1,2,... by the engine)
static uint64_t mytag[KN]; static uint64_t resp[KN]; static bool live[KN]; static int cret[KN], cerr[KN];
static OutOfOrderContext* ctxp[KN];
static Raw<OutOfOrderContext> ctxs0, ctxs1, ctxs2, ctxs3;   // separate objects (an array would give the engine's context pointers a symbolic offset into one object)
#define CTXS(i) ctxs##i     // the callers' contexts: typed static storage (heap blocks make every access a byte-level extract); 'returned' is tracked by live[]
static uint64_t cur_tag; static bool delivered[KN + 3]; static int nresp; static bool foreign_collect[KN];
static inline uint64_t payload(uint64_t tag) { return tag * 7 + 1; }
static inline int owner_ctx(OutOfOrderContext* x)
{
#define OC_M(i) if (ctxp[i] == x) return i;
    K_EACH(OC_M)
#undef OC_M
    return -1;
}

static inline __attribute__((always_inline)) int cb_issue(OutOfOrderContext* a)
{
    int me = (int)verif_get_tid();
    CHECK(a->tag >= 1 && a->tag <= KN + 1, "engine hands out small consecutive tags");
    mytag[me] = a->tag; owner_of_tag[a->tag] = me + 1;
    return 0;
}
static inline __attribute__((always_inline)) int cb_completion(OutOfOrderContext* a)
{
#ifdef YIELD_IN_COMPLETION
    if (nondet_bool()) thread_yield();                       // blocking header read
#endif
    if (nresp >= NRESP) { errno = ECONNRESET; return -1; }   // nothing more arrives: the stream read fails (timeout / reset)
    nresp++;
#ifdef STREAM_ERRORS
    if (nondet_bool()) return -1;                            // connection reset while reading a header
#endif
    uint8_t t = nondet_u8(); ASSUME(t >= 1 && t <= KN + 1);  // any outstanding tag in any order, or a tag nobody issued (KN+1)
#ifndef DUPLICATES
    ASSUME(!delivered[t]);
#endif
    delivered[t] = true; cur_tag = t; a->tag = t;
    return 0;
}
static inline __attribute__((always_inline)) int cb_collect(OutOfOrderContext* targ)
{
    int o = owner_ctx(targ);
    CHECK(o >= 0 && live[o], "do_collect is only called for a call that has not returned yet");
    if (o != (int)verif_get_tid()) foreign_collect[o] = true;
    if (nondet_bool()) thread_yield();                       // blocking body read: other callers run, deadlines may expire
    CHECK(live[o], "the call being collected has not returned while its body was being read");
    resp[o] = payload(cur_tag);                              // writes into the target call's response buffer
    return 0;
}
static inline __attribute__((always_inline)) int cb_dispatch(int kind, OutOfOrderContext* x)
{ return kind == 1 ? cb_issue(x) : kind == 2 ? cb_completion(x) : cb_collect(x); }

template<int ME_> static inline __attribute__((always_inline)) void caller()
{
    OutOfOrderContext* c = new (ME_ == 0 ? &ctxs0.v : ME_ == 1 ? &ctxs1.v : ME_ == 2 ? &ctxs2.v : &ctxs3.v) OutOfOrderContext;   // the caller's stack frame; live[ME_] says whether the call is still in progress
    ctxp[ME_] = c; live[ME_] = true;
    c->engine = (OutOfOrder_Execution_Engine*)&E.v;
    c->do_issue.kind = 1; c->do_completion.kind = 2; c->do_collect.kind = 3;
    c->timeout = nondet_bool() ? Timeout() : Timeout(100);
    int r = E.v.issue_wait(*c);
    int e = errno;
    cret[ME_] = r; cerr[ME_] = e;
    live[ME_] = false;
    if (r >= 0) CHECK(resp[ME_] == payload(mytag[ME_]), "a successful call holds exactly the response produced for its own request");
    c->ret = -77; c->tag = 0xdead;                           // the frame is gone: scribble over it (a later reader would see garbage)
}
extern "C" {
void thread_entry_0() { caller<0>(); }
void thread_entry_1() { caller<1>(); }
#if NT > 2
void thread_entry_2() { caller<2>(); }
#endif
NOINL void world_init() { new (&E.v) OooEngine; }
NOINL void world_final(uint32_t all_done, uint32_t stuck)
{
    if (all_done) {
        CHECK(E.v.m_map.size() == 0, "quiescence: no call left registered in the engine");
#if NRESP >= 2
        if (cret[0] >= 0 && cret[1] >= 0) WITNESS("both calls succeeded");
        if (cret[0] >= 0 && mytag[0] == 1 && cur_tag == 1) WITNESS("responses arrived out of order");
#endif
        if (cret[1] < 0 && cerr[1] == ETIMEDOUT) WITNESS("call 1 timed out");
        if (cret[1] >= 0 && foreign_collect[1]) WITNESS("call 1 succeeded with a response that the other caller read off the wire");
        if (cret[0] < 0 && cerr[0] != ETIMEDOUT) WITNESS("call 0 failed because the stream failed");
    }
}
}
