// g++ -std=c++14 -O1 -g -I/repo/include demo.cpp -L/repo/_build/output -lphoton -Wl,-rpath,/repo/_build/output -lpthread
// Two callers on one vCPU share one out-of-order engine.  Caller A becomes the reader ("leader"): it reads the header of B's
// response and then reads B's body (do_collect on B's context), which takes a while.  B waits with a deadline that falls inside that
// body read.  Property C11: once B's call has returned, nobody touches B's context / buffers any more.
#include <photon/photon.h>
#include <photon/thread/thread11.h>
#include <photon/rpc/out-of-order-execution.h>
#include <photon/common/alog.h>
#include <cstdio>
#include <cstring>
#include <cerrno>
using namespace photon; using namespace photon::rpc;
static OutOfOrder_Execution_Engine* eng;
static volatile bool B_returned = false; static int violations = 0;
struct Call { OutOfOrderContext ctx; char resp[16]; int id; };
static Call* callB;
static int do_issue(void*, OutOfOrderContext*) { return 0; }
static int do_completion(void*, OutOfOrderContext* c) {
    thread_usleep(20 * 1000);                 // the header arrives after 20 ms ...
    c->tag = callB->ctx.tag;                  // ... and it is the response to B's request
    return 0;
}
static int do_collect(void*, OutOfOrderContext* c) {
    Call* k = (Call*)c;                        // ctx is the first member
    thread_usleep(100 * 1000);                 // the body takes 100 ms to arrive
    if (k == callB && B_returned) { printf("VIOLATION: body of B's response is written into B's buffer after B's call has returned\n"); violations++; }
    memcpy(k->resp, "RESPONSE", 9);
    return 0;
}
static void init(Call& k, int id, Timeout t) {
    k.id = id; k.ctx.engine = eng; k.ctx.timeout = t; memset(k.resp, 0, sizeof(k.resp));
    k.ctx.do_issue.bind(nullptr, &do_issue); k.ctx.do_completion.bind(nullptr, &do_completion); k.ctx.do_collect.bind(nullptr, &do_collect);
}
static void* caller_A(void*) { Call k; init(k, 0, Timeout()); int r = ooo_issue_wait(k.ctx); printf("A: issue_wait = %d errno %d\n", r, errno); return 0; }
static void* caller_B(void*) {
    Call* k = new Call; callB = k; init(*k, 1, Timeout(50 * 1000));     // B's deadline: 50 ms
    int r = ooo_issue_wait(k->ctx); int e = errno;
    printf("B: issue_wait = %d errno %d (%s) resp='%s'\n", r, e, strerror(e), k->resp);
    B_returned = true;
    memset((void*)k, 0xdd, sizeof(*k));                                    // the frame is gone
    OutOfOrderContext* c = &k->ctx; (void)c;
    thread_usleep(200 * 1000);
    unsigned char* p = (unsigned char*)k; bool touched = false; for (size_t i = 0; i < sizeof(*k); i++) if (p[i] != 0xdd) touched = true;
    if (touched) { printf("VIOLATION: B's context / buffer was modified after B's call had returned\n"); violations++; }
    return 0;
}
int main() {
    setvbuf(stdout, 0, _IONBF, 0);
    photon::init(INIT_EVENT_DEFAULT, INIT_IO_NONE);
    eng = new_ooo_execution_engine();
    callB = nullptr;
    // B must be issued before A reads the header, A must be the reader: start A (blocks in do_completion), then B
    static Call dummy; callB = &dummy;          // placeholder until B has created its call
    auto ta = thread_enable_join(thread_create(caller_A, nullptr));
    thread_yield();
    auto tb = thread_enable_join(thread_create(caller_B, nullptr));
    thread_join(tb); thread_join(ta);
    printf(violations ? "FAILED: %d violation(s)\n" : "PASS\n", violations);
    return violations ? 1 : 0;
}
