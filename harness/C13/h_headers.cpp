// C13 (header side): HeadersBase::reset / parse on a symbolic header section.
// Real code: net/http/headers.cpp (HeadersBase::parse, kv_add, std::sort with HeaderAssistant), net/http/parser.h (Parser),
// common/estring.cpp (stricmp_fast), included textually.
// Buffer layout of HeadersBase: text [0, m_buf_size), then free space, then the key/value index growing down from
// m_buf + m_buf_capacity.  kv_add refuses an index slot that would start at or before m_buf + m_buf_size, so there is always at
// least one byte of the *same* buffer right behind the received text: an exact-size storage object cannot turn a read of
// m_buf[m_buf_size] into an out-of-bounds access.  "No access outside the received bytes" is therefore checked as
// non-interference: two buffers that agree on the received bytes [0, n) and differ arbitrarily in every byte behind them must
// give the same return code, header count and key/value index.  (A read behind the message that can never change a result is not
// observable this way; any read that matters is.)
#include "verif_h.h"
#include "nolog.h"
#include "common/estring.cpp"
#include "net/http/headers.cpp"
using namespace photon::net::http;

#ifndef NMAX
#define NMAX 12          // longest received header text
#endif
#ifndef KMAX
#define KMAX 2           // index slots available in the buffer
#endif
#define GAP 2            // free bytes between the longest text and the index
#define CAP (NMAX + GAP + 8 * KMAX)

struct H : public Headers {
    unsigned count() const { return m_kv_size; }
    // index entry i (after parse: sorted), as offsets/lengths relative to the buffer start
    void entry(unsigned i, unsigned& ko, unsigned& kl, unsigned& vo, unsigned& vl) const {
        KV e = kv_begin()[i];
        ko = e.first.offset(); kl = e.first.length(); vo = e.second.offset(); vl = e.second.length();
    }
};
// In Message the header text starts behind the start line (HeadersBase::m_buf = Parser::cur()), i.e. inside a larger buffer: PRE bytes of it
// precede m_buf here (kv_add computes `begin - 1` before it compares, which needs 8 addressable bytes below a nearly full index).
#define PRE 8
static char SA[PRE + CAP], SB[PRE + CAP];
#define BA (SA + PRE)
#define BB (SB + PRE)
static Raw<H> ha, hb;

NOINL static void fill1() { for (unsigned i = 0; i < CAP; i++) BA[i] = (char)nondet_u8(); }
// BA, BB: same received bytes [0, n), independent arbitrary bytes behind them
NOINL static void fill2(unsigned n)
{
    for (unsigned i = 0; i < CAP; i++) {
        uint8_t a = nondet_u8(), b = nondet_u8();
#ifdef ALPHABET
        // the parser compares bytes only against CR, LF, ':' and ' '; keys are compared case-insensitively
        if (i < n) ASSUME(a == '\r' || a == '\n' || a == ':' || a == ' ' || a == 'a' || a == 'B');
#endif
        BA[i] = (char)a; BB[i] = (char)(i < n ? a : b);
    }
}

extern "C" {

// (a)+(b) arbitrary received bytes: nothing behind them influences the result
void harness_headers_parse_oob()
{
    uint8_t n = nondet_u8(); ASSUME(n >= 1 && n <= NMAX);
    fill2(n);
    // what Message::append_bytes guarantees before it parses: the received bytes contain the header terminator CRLF CRLF
    bool term = false;
    for (unsigned i = 0; i + 4 <= NMAX; i++) if (i + 4 <= n && BA[i] == '\r' && BA[i + 1] == '\n' && BA[i + 2] == '\r' && BA[i + 3] == '\n') term = true;
    ASSUME(term);
    H* A = new (&ha.v) H; H* B = new (&hb.v) H;
    // capacity = text + GAP free bytes + exactly KMAX index slots, whatever the text length
    int ra = A->reset(BA, n + GAP + 8 * KMAX, n);
    int rb = B->reset(BB, n + GAP + 8 * KMAX, n);
    CHECK(A->count() <= 16 && B->count() <= 16, "at most 16 index entries (std::sort stays in its insertion-sort range; see jobs.py)");
    CHECK(ra == rb, "header parse: return code does not depend on bytes behind the received data");
    CHECK(A->count() == B->count(), "header parse: header count does not depend on bytes behind the received data");
    bool same = true;
    for (unsigned i = 0; i < KMAX; i++) {
        if (i >= A->count() || i >= B->count()) break;
        unsigned a0, a1, a2, a3, b0, b1, b2, b3;
        A->entry(i, a0, a1, a2, a3); B->entry(i, b0, b1, b2, b3);
        if (a0 != b0 || a1 != b1 || a2 != b2 || a3 != b3) same = false;
        CHECK(a0 + a1 <= n && a2 + a3 <= n, "header parse: every key and value lies inside the received data");
    }
    CHECK(same, "header parse: keys and values do not depend on bytes behind the received data");
    if (ra == 0 && A->count() == 2) WITNESS("headers: two headers parsed");
    if (ra == 0 && A->count() == 0) WITNESS("headers: empty header section");
    if (ra < 0) WITNESS("headers: parse failed");
}

// (b) well-formed header section (every line "key:[ ]value CRLF", then the empty line, then arbitrary body bytes that arrived in
// the same buffer): parse succeeds and yields exactly the reference keys/values, whatever lies behind the received data.
#ifndef NHDR
#define NHDR 2
#endif
void harness_headers_parse_wellformed()
{
    unsigned n = 0;
    unsigned ko[NHDR], kl[NHDR], vo[NHDR], vl[NHDR];
    uint8_t nh = nondet_u8(); ASSUME(nh <= NHDR);
    fill1();                                                           // body bytes / free space / index: arbitrary
    for (unsigned h = 0; h < NHDR; h++) {
        if (h >= nh) break;
        uint8_t klen = nondet_u8(), vlen = nondet_u8(), sp = nondet_u8(); ASSUME(klen >= 1 && klen <= 2 && vlen <= 2 && sp <= 1);
        ko[h] = n; kl[h] = klen;
        for (unsigned i = 0; i < 2; i++) { if (i >= klen) break; uint8_t c = nondet_u8(); ASSUME(c != ':' && c != '\r' && c != '\n' && c != ' '); BA[n++] = (char)c; }
        BA[n++] = ':';
        if (sp) BA[n++] = ' ';
        vo[h] = n; vl[h] = vlen;
        for (unsigned i = 0; i < 2; i++) { if (i >= vlen) break; uint8_t c = nondet_u8(); ASSUME(c != '\r' && (i > 0 || c != ' ')); BA[n++] = (char)c; }
        BA[n++] = '\r'; BA[n++] = '\n';
    }
    BA[n++] = '\r'; BA[n++] = '\n';
    uint8_t body = nondet_u8(); ASSUME(body <= 2); n += body;           // first body bytes received together with the header
    CHECK(n <= NMAX, "harness: text fits the bound");
    H* A = new (&ha.v) H;
    int r = A->reset(BA, n + GAP + 8 * KMAX, n);
    CHECK(A->count() <= 16, "at most 16 index entries (std::sort stays in its insertion-sort range; see jobs.py)");
    CHECK(r == 0, "well-formed header section parses");
    CHECK(A->count() == nh, "one index entry per header line");
    // the index is sorted by key: compare as a set
    bool all = true;
    for (unsigned h = 0; h < NHDR; h++) {
        if (h >= nh) break;
        bool f = false;
        for (unsigned i = 0; i < NHDR; i++) {
            if (i >= A->count()) break;
            unsigned a0, a1, a2, a3; A->entry(i, a0, a1, a2, a3);
            if (a0 == ko[h] && a1 == kl[h] && a2 == vo[h] && a3 == vl[h]) f = true;
        }
        if (!f) all = false;
    }
    CHECK(all, "every header line appears in the index with exactly its key and value");
    if (nh == NHDR && body == 2) WITNESS("wellformed: maximum headers and body bytes behind them");
    if (nh == 0) WITNESS("wellformed: no headers");
}

}
