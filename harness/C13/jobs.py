from vlib import Job

META = dict(bounds='', outside='', assumptions=[])
SRC = 'C13/h_body.cpp'
SH = ['libc.c']
MAP = ['--map', '^@snprintf$=verif_snprintf_zx']
OB = ['--object-bits', '12']

RD = 'f__ZN6photon3net4http21ChunkedBodyReadStream4readEPvm'
GNC = 'f__ZN6photon3net4http21ChunkedBodyReadStream13get_new_chunkEv'
PNC = 'f__ZN6photon3net4http21ChunkedBodyReadStream14pos_next_chunkEi'
WR = 'f__ZN4Wire'

def US(R, I, G, F, H, M, MM, S):
    # loop bounds of the real chunk reader, per loop (the unwinding assertions prove each of them sufficient):
    # R read() outer loop, I read_from_line_buf loop (inlined into read), G get_new_chunk recv loop, F string_view::find,
    # H hex digits, M memcpy bytes, MM memmove bytes (compaction of an incomplete size line), S bytes per stub transfer
    return [RD + '.1:%d' % R, RD + '.0:%d' % I, GNC + '.0:%d' % G, PNC + '.0:%d' % F, PNC + '.1:%d' % H, 'verif_memcpy_n.0:%d' % M,
            'verif_memmove_n.0:%d' % MM, 'verif_memmove_n.1:%d' % MM, WR + '4readEPvm.0:%d' % S, WR + '4recvEPvmi.0:%d' % S]

def D(**kw): return ['%s=%s' % (k, v) if v is not True else k for k, v in kw.items()]

def J_(name, entry, defs, unwind, us=(), timeout=300, desc='', bounds=''):
    return Job(name, SRC, entry, defines=defs, unwind=unwind, unwindset=list(us), shims=SH, ir2c=MAP, cbmc=OB, timeout=timeout, desc=desc, bounds=bounds)

def jobs(tier):
    q = tier == 'quick'
    T = 300 if q else 1700
    J = []
    # ---- chunk reader on well-formed messages
    pm, nc = (2, 1) if q else (3, 2)
    wm = pm + 5 * nc + 5
    lines = 2 * nc + 1
    us = US(R=lines + 1, I=lines + 2, G=4, F=3, H=2, M=pm + 1, MM=3, S=max(pm, 3) + 1)
    J.append(J_('chunked_exact_frag', 'harness_chunked_exact', D(PMAX=pm, NCHUNK=nc, WMAX=wm, KFRAG=3, NCALL=0, SRVMAX=max(pm, 3)), wm + 2, us, T,
                'ChunkedBodyReadStream: one read of everything, symbolic partial-body split and recv fragmentation',
                'payload <= %d bytes in <= %d chunks, recv fragments 1..3 bytes' % (pm, nc)))
    J.append(J_('chunked_after_end', 'harness_chunked_after_end', D(WMAX=4, PMAX=2), 8, US(2, 2, 2, 2, 2, 2, 2, 2), 300,
                'finished chunk reader: every read returns 0 and touches nothing', 'arbitrary cursor/line size/remaining count'))
    J.append(J_('chunked_exact_sizes', 'harness_chunked_exact', D(PMAX=pm, NCHUNK=nc, WMAX=wm, NCALL=2, CMAX=pm, SRVMAX=max(pm, 3), ALLPARTIAL=True, TERMINAL=True), wm + 2, us, T,
                'ChunkedBodyReadStream: whole message received with the header, symbolic caller read sizes, terminal read',
                'payload <= %d bytes in <= %d chunks, 2 reads of 1..%d bytes then one of everything, then the terminal read' % (pm, nc, pm)))
    J.append(J_('chunked_exact_oneshot', 'harness_chunked_exact', D(PMAX=pm, NCHUNK=nc, WMAX=wm, NCALL=1, CMAX=pm, SRVMAX=wm, ONESHOT=True), wm + 2,
                US(R=lines + 1, I=lines + 2, G=3, F=3, H=2, M=pm + 1, MM=3, S=wm + 1), T,
                'ChunkedBodyReadStream: symbolic partial-body split, each recv delivers all that is left, symbolic first read size',
                'payload <= %d bytes in <= %d chunks' % (pm, nc)))
    J.append(J_('chunked_truncated', 'harness_chunked_exact', D(PMAX=pm, NCHUNK=nc, WMAX=wm, KFRAG=3, NCALL=0, SRVMAX=max(pm, 3), TRUNC=True, TERMINAL=True), wm + 2, us, T,
                'ChunkedBodyReadStream on a message cut at a symbolic point: prefix of the payload, never reported complete',
                'payload <= %d bytes in <= %d chunks, cut anywhere' % (pm, nc)))
    wa = 6 if q else 8
    J.append(J_('chunked_any', 'harness_chunked_any', D(WMAX=wa, PMAX=wa, GMAX=wa + 1, KFRAG=3, NCALL=0, SRVMAX=wa), wa + 2,
                US(R=wa // 2 + 2, I=wa // 2 + 2, G=wa + 1, F=wa, H=wa, M=wa + 1, MM=wa + 1, S=wa + 1), T,
                'ChunkedBodyReadStream on arbitrary bytes: two independent fragmentations agree; no out-of-bounds access, no endless loop',
                'any byte string of length <= %d' % wa))
    # ---- writers and round trips
    J.append(J_('chunked_write', 'harness_chunked_write', D(PMAX=4, NCHUNK=2, WMAX=4 + 10 + 5), 22, [], T,
                'ChunkedBodyWriteStream (write/writev/close) emits exactly the chunked coding', 'payload <= 4 bytes in <= 2 writes'))
    J.append(J_('chunked_roundtrip', 'harness_chunked_write', D(PMAX=pm, NCHUNK=nc, WMAX=wm, KFRAG=3, NCALL=0, SRVMAX=max(pm, 3), ROUNDTRIP=True), wm + 2, us, T,
                'ChunkedBodyWriteStream -> wire -> ChunkedBodyReadStream returns the payload', 'payload <= %d bytes in <= %d writes' % (pm, nc)))
    J.append(J_('length_roundtrip', 'harness_length_write', D(PMAX=4, NCHUNK=2, WMAX=5, GMAX=5, NCALL=2, CMAX=3), 8, [], T,
                'BodyWriteStream(N) passes the first N bytes; BodyReadStream(N) reads them back', 'payload <= 4 bytes in <= 2 writes, declared length 0..5'))
    J.append(J_('readv_length', 'harness_readv', D(PMAX=4, WMAX=5, CMAX=3), 8, ['f__ZN6photon3net4http14BodyReadStream5readvEPK5ioveci.0:4'], T,
                'BodyReadStream::readv into two iovecs', 'body <= 4 bytes, iovecs of 0..3 bytes'))
    J.append(J_('readv_chunked', 'harness_readv', D(PMAX=pm, NCHUNK=nc, WMAX=wm, CMAX=pm, SRVMAX=max(pm, 3), RV_CHUNKED=True), wm + 2, us + ['f__ZN6photon3net4http14BodyReadStream5readvEPK5ioveci.0:4'], T,
                'ChunkedBodyReadStream via the inherited readv, two iovecs', 'payload <= %d bytes, iovecs of 0..%d bytes' % (pm, pm)))
    # ---- Content-Length / close-delimited reader
    wl = 5 if q else 8
    for nm, extra in (('length_exact', {}), ('closedelim_exact', dict(CLOSEDELIM=True))):
        J.append(J_(nm, 'harness_length_exact', D(WMAX=wl, PMAX=wl, GMAX=wl + 1, NCALL=3 if q else 4, CMAX=3, KFRAG=3, **extra), wl + 3, [], T,
                    'BodyReadStream (%s): reads return exactly the body, then 0' % ('until close' if extra else 'Content-Length'),
                    'stream <= %d bytes, declared length 0..%d, %d reads of 1..3 bytes then one of everything' % (wl, wl + 2, 3 if q else 4)))
    J.append(J_('length_close', 'harness_length_exact', D(WMAX=wl, PMAX=wl, GMAX=wl + 1, NCALL=2, CMAX=3, KFRAG=3, DO_CLOSE=True), wl + 3, [], T,
                'BodyReadStream::close after a partial read skips exactly the rest of the body', 'stream <= %d bytes, 2 reads of 1..3 bytes' % wl))
    return J
