from vlib import Job

META = dict(
    technique='bounded symbolic execution of clang IR of the real sources (ir2c -> CBMC, SAT); real net/http/body.cpp, common/estring.cpp, '
              'common/iovector.cpp included textually over a harness-defined ISocketStream',
    bounds='chunk reader: chunked coding of a symbolic payload (quick: <= 2 bytes in 1 chunk for the fully symbolic jobs, <= 2 bytes in 2 chunks for the '
           'byte-at-a-time and all-in-partial-body jobs; thorough: up to 4 bytes in 1 chunk with fragments 1..4, 3 bytes in 3 chunks, 2 bytes in 2 chunks fully symbolic, optional leading zero; either hex case), symbolic split '
           'between the partial body handed over by the header parser and the stream, every recv() returning a symbolic 1..3 (thorough 1..4) bytes, caller reads of '
           'symbolic size followed by one read of everything; truncation at every byte position; arbitrary byte strings of length <= 5 (safety) / <= 4 (two '
           'deliveries compared) in quick, <= 7 / <= 6 in thorough.  Content-Length / close-delimited reader: any stream of <= 8 (12) bytes, declared length 0..10 (14), '
           '4 (6) reads of 1..3 bytes then one of everything; close() after 2 partial reads.  Writers: payload <= 4 bytes in <= 2 (<= 6 in <= 3) write()/writev() calls, '
           'declared length 0..5; round trips through the matching reader.',
    outside='Message::append_bytes, parse_start_line and the body_size() framing decision: not encoded.  Header side (h_headers.cpp) covers HeadersBase::reset/parse/kv_add with the real Parser '
            'only: std::sort of the index with the case-insensitive comparator (stricmp_fast reads 8-byte words at symbolic offsets) exhausted 10 GB even for two entries, so '
            'headers_parse_oob leaves the sort out (argued in jobs.py) and headers_parse_wellformed is limited to one header line, where the sort is the identity; lookup (find / operator[]) not encoded; '
            'BodyReadStream::readv and the overflow branch copy of SmartCloneIOV (the byte-wise translation of its symbolic-length memcpy of iovec structs loses pointer '
            'provenance in CBMC: only BodyWriteStream::writev with a 2-entry vector is covered); chunk-size lines longer than the line buffer (LINE_BUFFER_SIZE = 4096 is the '
            'real constant; the harness bound never fills it), chunk sizes >= 16, chunk extensions and trailers in well-formed messages (they occur only inside the arbitrary-byte jobs); '
            'stream errors (a recv()/read() returning -1) and short write()s of the underlying stream; zero-length write() to the chunked writer (it emits the terminating chunk: '
            'write sizes are >= 1 in the harness); messages longer than the bounds.',
    assumptions=['stub ISocketStream "Wire" (harness): recv() returns 1..k bytes (never more than requested or left) and 0 at end of stream; read() returns min(count, bytes left) '
                 '(fully-reading, as ISocketStream::read documents); write()/writev() accept everything; close() only records the call',
                 'ISocketStream::skip_read (net/basic_socket.cpp, not included) is replaced by its documented contract: read count bytes and drop them, true iff all were there',
                 'snprintf is replaced by an exact model of snprintf(buf, n, "%zx\\r\\n", v) for v < 65536 (format string and range are asserted at every call)',
                 'the storage behind the chunk reader\'s line buffer pointer is WMAX+1 bytes instead of 4096: the stub never delivers more than WMAX bytes in total, so every access '
                 'beyond them would be an access to bytes never received and is reported by the bounds check; the recv() request itself is asserted to stay inside the real 4096-byte region',
                 'the jobs without a terminal read establish "end of body" as: reader in its finished state (close() == 0); chunked_after_end proves that in this state every read returns 0 '
                 'for an arbitrary rest of the state',
                 'logging macros have empty bodies', 'NDEBUG build: assert() compiled out (as shipped)', 'operator new never fails'],
)
SRC = 'C13/h_body.cpp'
SH = ['libc.c']
MAP = ['--map', '^@snprintf$=verif_snprintf_zx']
OB = ['--object-bits', '12']

RD = 'f__ZN6photon3net4http21ChunkedBodyReadStream4readEPvm'
GNC = 'f__ZN6photon3net4http21ChunkedBodyReadStream13get_new_chunkEv'
PNC = 'f__ZN6photon3net4http21ChunkedBodyReadStream14pos_next_chunkEi'
WR = 'f__ZN4Wire'

def US(R, I, G, F, H, M, MM, S):
    # loop bounds of the real chunk reader, per loop (the unwinding assertions prove each of them sufficient for every input in the bound):
    # R read() outer loop, I read_from_line_buf loop (inlined into read), G get_new_chunk recv loop, F string_view::find,
    # H hex digits, M memcpy bytes, MM memmove bytes (compaction of an incomplete size line), S bytes per stub transfer
    return [RD + '.1:%d' % R, RD + '.0:%d' % I, GNC + '.0:%d' % G, PNC + '.0:%d' % F, PNC + '.1:%d' % H, 'verif_memcpy_n.0:%d' % M,
            'verif_memmove_n.0:%d' % MM, 'verif_memmove_n.1:%d' % MM, WR + '4readEPvm.0:%d' % S, WR + '4recvEPvmi.0:%d' % S]

def D(**kw): return ['%s=%s' % (k, v) if v is not True else k for k, v in kw.items()]

def J_(name, entry, defs, unwind, us=(), timeout=300, desc='', bounds='', mem=10):
    return Job(name, SRC, entry, defines=defs, unwind=unwind, unwindset=list(us), shims=SH, ir2c=MAP, cbmc=OB, timeout=timeout, mem_gb=mem, desc=desc, bounds=bounds)

def valid(pm, nc, kf=3, lz=False):
    """defines + unwindset for a well-formed message family: payload <= pm bytes in <= nc chunks, recv fragments <= kf"""
    z = 1 if lz else 0
    wm = pm + (5 + z) * nc + 5
    lines = 2 * nc + 1
    srv = max(pm, kf)
    d = dict(PMAX=pm, NCHUNK=nc, WMAX=wm, KFRAG=kf, SRVMAX=srv)
    if lz: d['LEADZERO'] = True
    us = US(R=lines + 1, I=lines + 2, G=4 + z, F=3 + z, H=2 + z, M=pm + 1, MM=3 + z, S=srv + 1)
    return d, us, wm

def jobs(tier):
    q = tier == 'quick'
    T = 900 if q else 1750      # nominal quick wall times are 5..180 s on an idle core (measured up to 360 s with 12 other solver runs on the machine)
    J = []
    # ---- chunk reader, well-formed messages (oracle B: exactly the payload, then end of body)
    d, us, wm = valid(2, 1) if q else valid(4, 1, kf=4)
    J.append(J_('chunked_exact_frag', 'harness_chunked_exact', D(NCALL=0, **d), wm + 2, us, T,
                'ChunkedBodyReadStream: one read of everything; symbolic partial-body split and recv fragmentation',
                'payload <= %d bytes in 1 chunk, recv fragments 1..%d bytes' % (d['PMAX'], d['KFRAG'])))
    d, us, wm = valid(2, 1)
    ncf = 1 if q else 2
    J.append(J_('chunked_exact_frag_sizes', 'harness_chunked_exact', D(NCALL=ncf, CMAX=2, **d), wm + 2, us, T,
                'ChunkedBodyReadStream: symbolic caller read sizes on top of symbolic partial-body split and recv fragmentation',
                'payload <= 2 bytes in 1 chunk, recv fragments 1..3 bytes, %d reads of 1..2 bytes then one of everything' % ncf))
    if not q:
        d, us, wm = valid(2, 1, kf=3, lz=True)
        J.append(J_('chunked_exact_leadzero', 'harness_chunked_exact', D(NCALL=0, **d), wm + 2, us, T,
                    'ChunkedBodyReadStream: size line with an optional leading zero, either hex case',
                    'payload <= 2 bytes in 1 chunk, recv fragments 1..3 bytes'))
    d, us, wm = valid(2, 1) if q else valid(3, 1)
    nca = 1 if q else 2
    J.append(J_('chunked_exact_sizes', 'harness_chunked_exact', D(NCALL=nca, CMAX=d['PMAX'], ALLPARTIAL=True, **d), wm + 2, us, T,
                'ChunkedBodyReadStream: whole message received with the header, symbolic caller read sizes',
                'payload <= %d bytes in 1 chunk, %d reads of 1..%d bytes then one of everything' % (d['PMAX'], nca, d['PMAX'])))
    d2 = dict(d); d2['SRVMAX'] = wm
    us2 = US(R=4, I=5, G=3, F=3, H=2, M=d['PMAX'] + 1, MM=3, S=wm + 1)
    J.append(J_('chunked_exact_oneshot', 'harness_chunked_exact', D(NCALL=nca, CMAX=d['PMAX'], ONESHOT=True, **d2), wm + 2, us2, T,
                'ChunkedBodyReadStream: symbolic partial-body split, each recv delivers all that is left, symbolic first read sizes',
                'payload <= %d bytes in 1 chunk, %d reads of 1..%d bytes then one of everything' % (d['PMAX'], nca, d['PMAX'])))
    J.append(J_('chunked_truncated', 'harness_chunked_exact', D(NCALL=0, TRUNC=True, TERMINAL=True, **d), wm + 2, us, T,
                'ChunkedBodyReadStream on a message cut at a symbolic point: prefix of the payload, never reported complete unless only the final CRLF is missing',
                'payload <= %d bytes in 1 chunk, cut at any byte, symbolic split and fragmentation' % d['PMAX']))
    # several chunks
    d, us, wm = valid(2, 2) if q else valid(3, 3)
    d1 = dict(d); d1['KFRAG'] = 1
    J.append(J_('chunked_multi_bytewise', 'harness_chunked_exact', D(NCALL=0, **d1), wm + 2, us, T,
                'ChunkedBodyReadStream: several chunks, stream delivered one byte per recv, symbolic partial-body split',
                'payload <= %d bytes in <= %d chunks' % (d['PMAX'], d['NCHUNK'])))
    J.append(J_('chunked_multi_partial', 'harness_chunked_exact', D(NCALL=0, ALLPARTIAL=True, **d), wm + 2, us, T,
                'ChunkedBodyReadStream: several chunks, whole message received with the header',
                'payload <= %d bytes in <= %d chunks' % (d['PMAX'], d['NCHUNK'])))
    if not q:
        d, us, wm = valid(2, 2)
        J.append(J_('chunked_multi_frag', 'harness_chunked_exact', D(NCALL=0, **d), wm + 2, us, T,
                    'ChunkedBodyReadStream: several chunks, symbolic partial-body split and recv fragmentation',
                    'payload <= 2 bytes in <= 2 chunks, recv fragments 1..3 bytes'))
    J.append(J_('chunked_after_end', 'harness_chunked_after_end', D(WMAX=4, PMAX=2), 8, US(2, 2, 2, 2, 2, 2, 2, 2), 300,
                'finished chunk reader: every read returns 0 and touches nothing', 'arbitrary cursor / line size / remaining count'))
    # ---- chunk reader, arbitrary bytes (oracles A and D)
    wa = 5 if q else 7
    TA = T if q else 3000       # thorough: about 19 and 21 minutes on an idle core
    J.append(J_('chunked_any_safe', 'harness_chunked_any', D(WMAX=wa, PMAX=wa, GMAX=wa + 1, KFRAG=3, NCALL=0, SRVMAX=wa, ANY_TERMINAL=True), wa + 2,
                US(R=wa // 2 + 2, I=wa // 2 + 2, G=wa + 1, F=wa, H=wa, M=wa + 1, MM=wa + 1, S=wa + 1), TA,
                'ChunkedBodyReadStream on arbitrary bytes: no out-of-bounds access, no endless loop, only bytes of the message delivered',
                'any byte string of length <= %d, symbolic split and fragmentation, one read of everything and the read after it' % wa))
    wa = 4 if q else 6
    J.append(J_('chunked_any_fragindep', 'harness_chunked_any', D(WMAX=wa, PMAX=wa, GMAX=wa + 1, KFRAG=3, NCALL=0, SRVMAX=wa, TWO_RUNS=True), wa + 2,
                US(R=wa // 2 + 2, I=wa // 2 + 2, G=wa + 1, F=wa, H=wa, M=wa + 1, MM=wa + 1, S=wa + 1), TA,
                'ChunkedBodyReadStream on arbitrary bytes: canonical delivery and a symbolic split/fragmentation give the same bytes and result',
                'any byte string of length <= %d' % wa))
    # ---- writers and round trips (oracle C)
    pw, nw = (4, 2) if q else (6, 3)
    J.append(J_('chunked_write', 'harness_chunked_write', D(PMAX=pw, NCHUNK=nw, WMAX=pw + 5 * nw + 5), pw + 5 * nw + 8, [], T,
                'ChunkedBodyWriteStream (write / writev / close) emits exactly the chunked coding, terminated once', 'payload <= %d bytes in <= %d writes' % (pw, nw)))
    d, us, wm = valid(2, 1) if q else valid(2, 2)
    J.append(J_('chunked_roundtrip', 'harness_chunked_write', D(NCALL=0, ROUNDTRIP=True, **d), wm + 2, us, T,
                'ChunkedBodyWriteStream -> wire -> ChunkedBodyReadStream (symbolic split and fragmentation) returns the payload',
                'payload <= %d bytes in <= %d writes' % (d['PMAX'], d['NCHUNK'])))
    J.append(J_('length_roundtrip', 'harness_length_write', D(PMAX=pw, NCHUNK=nw, WMAX=pw + 1, GMAX=pw + 1, NCALL=2, CMAX=3), pw + 4, ['verif_memcpy_n.0:34'], T,
                'BodyWriteStream(N) passes exactly the first N bytes; BodyReadStream(N) reads them back',
                'payload <= %d bytes in <= %d write()/writev() calls, declared length 0..%d' % (pw, nw, pw + 1)))
    # ---- Content-Length / close-delimited reader (oracle B)
    wl = 8 if q else 12
    nl = 4 if q else 6
    for nm, extra in (('length_exact', {}), ('closedelim_exact', dict(CLOSEDELIM=True))):
        J.append(J_(nm, 'harness_length_exact', D(WMAX=wl, PMAX=wl, GMAX=wl + 1, NCALL=nl, CMAX=3, KFRAG=3, **extra), wl + 3, [], T,
                    'BodyReadStream (%s): reads return exactly the body, then 0' % ('until close' if extra else 'Content-Length'),
                    'stream <= %d bytes, declared length 0..%d, %d reads of 1..3 bytes then one of everything' % (wl, wl + 2, nl)))
    J.append(J_('length_close', 'harness_length_exact', D(WMAX=wl, PMAX=wl, GMAX=wl + 1, NCALL=2, CMAX=3, KFRAG=3, DO_CLOSE=True), wl + 3, [], T,
                'BodyReadStream::close after partial reads skips exactly the rest of the body or fails', 'stream <= %d bytes, 2 reads of 1..3 bytes' % wl))
    # ---- header side (h_headers.cpp): HeadersBase::reset / parse
    nm = 12 if q else 16
    HS = 'C13/h_headers.cpp'
    SC = 'f__ZN6photon12stricmp_fastENSt12experimental15fundamentals_v117basic_string_viewIcSt11char_traitsIcEEES5_'
    PA = 'f__ZN6photon3net4http11HeadersBase5parseEv'
    IS = 'f__ZSt16__introsort_loopIPSt4pairI12rstring_viewIttES2_ElN9__gnu_cxx5__ops15_Iter_comp_iterIN6photon3net4http15HeaderAssistantEEEEvT_SD_T0_T1_'
    # std::__introsort_loop gets an empty body: its only statement is `while (last - first > 16) {...}` and both harnesses assert that at most 16 (in fact <= 4)
    # entries exist, so the real body would not execute either; this keeps the never-taken heap-sort/partition code out of the formula
    NOPIS = ['--nop', '__introsort_loop']
    # headers_parse_oob only: the whole std::sort call is left out (both copies keep parse order).  The sort reads nothing but the keys named by the index
    # entries, and the job asserts that every entry lies inside the received bytes, so it cannot add a dependence on bytes behind them;
    # headers_parse_wellformed runs the real sort.
    NOPSORT = ['--nop', '__introsort_loop|__final_insertion_sort']
    def HUS(n, cap, keylen=8):
        # parse loop: exactly KMAX = 2 index slots fit (then kv_add fails), so std::sort sees <= 2 elements
        return [PA + '.1:4', PA + '.0:%d' % (n + 2), 'ext_memchr.0:%d' % (n + 2), SC + '.0:%d' % (keylen + 1), SC + '.1:2', 'verif_bswap64.0:9',
                'f__ZL5fill2j.0:%d' % (cap + 2), 'f__ZL5fill1v.0:%d' % (cap + 2)]
    J.append(Job('headers_parse_oob', HS, 'harness_headers_parse_oob', defines=D(NMAX=nm, KMAX=2), unwind=nm + 2, unwindset=HUS(nm, nm + 18), ir2c=NOPSORT, shims=SH, cbmc=OB, timeout=T,
                 desc='HeadersBase::parse on arbitrary received bytes: return code, header count and key/value index do not depend on any byte behind the received data '
                      '(expected to FAIL on the tree where parse() tests p[0] without an end check: m_buf[m_buf_size] decides the result)',
                 bounds='any header text of 4..%d bytes that contains CRLF CRLF (the precondition Message::append_bytes establishes), buffer with room for exactly 2 index entries' % nm))
    J.append(Job('headers_parse_wellformed', HS, 'harness_headers_parse_wellformed', defines=D(NMAX=12, KMAX=1, NHDR=1), unwind=3, unwindset=HUS(12, 22, 3), ir2c=NOPSORT,   # <= 1 entry (asserted): std::sort is the identity
                 shims=SH, cbmc=OB, timeout=T,
                 desc='HeadersBase::parse on a well-formed header section followed by body bytes: succeeds with exactly the reference keys/values, arbitrary bytes behind the data',
                 bounds='<= 1 header line (key 1..2 bytes, optional space, value 0..2 bytes), 0..2 body bytes in the same buffer'))
    return J
