// C13 (body framing): HTTP/1.1 body readers/writers are independent of fragmentation and byte-exact.
// Real code: net/http/body.cpp included textually (BodyReadStream, ChunkedBodyReadStream incl. pos_next_chunk / get_new_chunk /
// read_from_line_buf / read_from_stream, BodyWriteStream, ChunkedBodyWriteStream), common/estring.cpp (hex_to_uint64_check),
// std::string_view::find, common/iovector.cpp + iovector.h (readv / writev paths).
// Stub: `Wire`, an ISocketStream defined here.  Input side: serves the byte string W; the i-th recv() hands over a symbolic number
// 1..KFRAG of bytes (never more than asked or left), 0 at end of stream; read() is the fully-reading variant (returns
// min(count, bytes left), as ISocketStream::read does by looping).  Output side: records every byte written.
// Entry points (see jobs.py for the bounds of each job):
//   harness_chunked_exact      oracle B: chunked coding of a symbolic payload is read back exactly (modes: ALLPARTIAL, ONESHOT,
//                              TERMINAL; TRUNC = message cut short: prefix only, never complete)
//   harness_chunked_after_end  lemma: a finished chunk reader returns 0 for ever and touches nothing
//   harness_chunked_any        oracles A/D: arbitrary bytes; memory safety, termination, delivered bytes come from the message;
//                              with TWO_RUNS the canonical delivery and a symbolic fragmentation must agree
//   harness_length_exact       oracle B for Content-Length / close-delimited bodies (DO_CLOSE: close() after partial reads)
//   harness_chunked_write      oracle C: writer emits the reference coding; ROUNDTRIP: the reader returns the payload from it
//   harness_length_write       oracle C for BodyWriteStream / BodyReadStream
// Fragmentation independence for well-formed messages follows from exactness: every split, fragmentation and read-size
// sequence inside the bound yields the one reference payload.
// Modelling notes learned the hard way: arrays written at a symbolic index (recorded output, collected bytes) are separate static
// arrays - a symbolic-offset store into an object that also holds vtable pointers makes every later virtual call symbolic; all
// nondet draws happen up front (fragment sizes, read sizes), not inside the stub.
#include "verif_h.h"
#include "nolog.h"
#include <stdio.h>
#include <sys/uio.h>
#include "common/iovector.cpp"
#include "common/estring.cpp"
#include "net/http/body.cpp"
using namespace photon::net;
using namespace photon::net::http;

#ifndef WMAX
#define WMAX 12          // longest wire string
#endif
#ifndef PMAX
#define PMAX 2           // longest payload
#endif
#ifndef KFRAG
#define KFRAG 3          // a recv() returns 1..KFRAG bytes
#endif
#ifndef NCALL
#define NCALL 0          // reader calls with a symbolic size 1..CMAX; then one call asking for more than can be left
#endif
#ifndef CMAX
#define CMAX 3
#endif
#ifndef GMAX
#define GMAX (PMAX + 1)  // capacity of the caller-side collection buffer (more than any body in the bound)
#endif
#ifndef SRVMAX
#define SRVMAX WMAX      // most bytes a single stream read()/recv() can hand over in this harness
#endif
#define LBCAP (WMAX + 1) // storage behind `body.data()`; the reader may ask recv() for up to 4096 bytes there (checked in the stub),
                         // the stub never hands over more than W holds, so any access past LBCAP is an access to bytes never received
#define OMAX (WMAX + 1)  // capacity of the recorded output

struct Wire : public ISocketStream {
    uint8_t in[WMAX + 1]; unsigned in_len, in_pos;
    uint8_t* out; unsigned out_len;          // recorded output lives in a separate array (a store at a symbolic index inside this object would make its vtable pointers symbolic)
    unsigned calls; bool closed; const char* lb;
    uint8_t frag[WMAX]; unsigned nf;      // fragmentation, drawn up front: the i-th recv() hands over at most frag[i] bytes
    void put(const void* p, size_t n) {
        for (unsigned i = 0; i < OMAX; i++) { if (i >= n) break; CHECK(out_len < OMAX, "stub: recorded output fits the harness capacity"); out[out_len++] = ((const uint8_t*)p)[i]; }
        CHECK(n <= OMAX, "stub: a single write is not longer than the harness output capacity");
    }
    ssize_t serve(void* buf, size_t count, bool all) {
        calls++;
        unsigned rem = in_len - in_pos;
        if (rem == 0) return 0;
        size_t n = rem;
        if (!all) { uint8_t f = nf < WMAX ? frag[nf] : 1; nf++; n = f < rem ? f : rem; }
        if (n > count) n = count;
        for (unsigned i = 0; i < SRVMAX; i++) { if (i >= n) break; ((uint8_t*)buf)[i] = in[in_pos + i]; }
        CHECK(n <= SRVMAX, "stub: a single transfer fits the harness bound");
        in_pos += n;
        return n;
    }
    // IStream
    int close() override { closed = true; return 0; }
    ssize_t read(void* buf, size_t count) override { return serve(buf, count, true); }
    ssize_t readv(const struct iovec*, int) override { CHECK(false, "stub: readv not expected"); return -1; }
    ssize_t write(const void* buf, size_t count) override { calls++; put(buf, count); return count; }
    ssize_t writev(const struct iovec* iov, int iovcnt) override {
        calls++; ssize_t t = 0;
        for (int i = 0; i < 3; i++) { if (i >= iovcnt) break; put(iov[i].iov_base, iov[i].iov_len); t += iov[i].iov_len; }
        CHECK(iovcnt <= 3, "stub: at most 3 iovecs");
        return t;
    }
    // ISocketStream
    ssize_t recv(void* buf, size_t count, int) override {
        // only the chunk reader's line buffer is filled with recv(): the request must stay inside the LINE_BUFFER_SIZE region
        CHECK((const char*)buf >= lb && (size_t)((const char*)buf - lb) + count <= 4096, "recv request stays inside the 4 KB line buffer");
        return serve(buf, count, false);
    }
    ssize_t recv(const struct iovec*, int, int) override { CHECK(false, "stub: recv(iov) not expected"); return -1; }
    ssize_t send(const void*, size_t, int) override { CHECK(false, "stub: send not expected"); return -1; }
    ssize_t send(const struct iovec*, int, int) override { CHECK(false, "stub: send(iov) not expected"); return -1; }
    ssize_t sendfile(int, off_t, size_t) override { return -1; }
    Object* get_underlay_object(uint64_t) override { return nullptr; }
    int setsockopt(int, int, const void*, socklen_t) override { return -1; }
    int getsockopt(int, int, void*, socklen_t*) override { return -1; }
    int getsockname(EndPoint&) override { return -1; }
    int getpeername(EndPoint&) override { return -1; }
    int getsockname(char*, size_t) override { return -1; }
    int getpeername(char*, size_t) override { return -1; }
};
// net/basic_socket.cpp is not part of the harness: skip_read is the documented "read count bytes and drop them"
bool photon::net::ISocketStream::skip_read(size_t count)
{
    static char drop[WMAX + 1];
    if (count > WMAX) count = WMAX + 1;       // more than the stream can hold: the read below comes back short
    return this->read(drop, count) == (ssize_t)count;
}
// snprintf as used by ChunkedBodyWriteStream: exact for the format "%zx\r\n" and values < 65536
extern "C" int verif_snprintf_zx(char* dst, size_t cap, const char* fmt, size_t v)
{
    CHECK(fmt[0] == '%' && fmt[1] == 'z' && fmt[2] == 'x' && fmt[3] == '\r' && fmt[4] == '\n' && fmt[5] == 0, "stub: snprintf format is %zx CRLF");
    CHECK(v < 65536 && cap >= 8, "stub: snprintf value/capacity inside the modelled range");
    int nd = v >= 4096 ? 4 : v >= 256 ? 3 : v >= 16 ? 2 : 1;
    for (int i = 0; i < 4; i++) { if (i >= nd) break; unsigned d = (v >> (4 * (nd - 1 - i))) & 15; dst[i] = d < 10 ? '0' + d : 'a' + d - 10; }
    dst[nd] = '\r'; dst[nd + 1] = '\n'; dst[nd + 2] = 0;
    return nd + 2;
}

static Raw<Wire> wireA, wireB;
static uint8_t OUTA[OMAX], OUTB[OMAX], GOTA[GMAX], GOTB[GMAX];
static char LBA[LBCAP], LBB[LBCAP];          // the memory behind `body.data()`: partial body, then the chunk reader's line buffer
// derived only to reach the protected state in the state-level lemma below; no member is overridden
struct CR : public ChunkedBodyReadStream {
    using ChunkedBodyReadStream::ChunkedBodyReadStream;
    void set(size_t remain, size_t ls, size_t cur, bool fin) { m_chunked_remain = remain; m_line_size = ls; m_cursor = cur; m_finish = fin; }
    bool finished() const { return m_finish; }
};
static Raw<CR> crA, crB;
static Raw<BodyReadStream> brA;
static Raw<ChunkedBodyWriteStream> cwA;
static Raw<BodyWriteStream> bwA;

// wire with input w[0..wl), of which the first pb bytes were already received with the header (they sit in lb[0..pb))
NOINL static Wire* mkwire(Raw<Wire>& r, const uint8_t* w, unsigned wl, unsigned pb, char* lb, bool oneshot)
{
    Wire* x = new (&r.v) Wire;
    for (unsigned i = 0; i < WMAX; i++) x->in[i] = i < wl ? w[i] : 0;
    x->in_len = wl; x->in_pos = pb; x->out_len = 0; x->out = (&r == &wireA) ? OUTA : OUTB; x->calls = 0; x->closed = false; x->lb = lb; x->nf = 0;
    for (unsigned i = 0; i < WMAX; i++) {
        if (oneshot) { x->frag[i] = WMAX; continue; }
        if (KFRAG == 1) { x->frag[i] = 1; continue; }
        uint8_t f = nondet_u8(); ASSUME(f >= 1 && f <= KFRAG); x->frag[i] = f;
    }
    for (unsigned i = 0; i < WMAX; i++) { if (i >= pb) break; lb[i] = (char)w[i]; }
    return x;
}

struct RunOut { uint8_t* got; unsigned n; int term; unsigned calls; RunOut(uint8_t* g) : got(g) {} };
// The caller: NCALL reads of symbolic size 1..CMAX, then one read that asks for everything the buffer can still take
// (GMAX exceeds every body in the bound), then - if `terminal` - one more read.
// term: 0 = a read returned 0, -1 = a read returned -1, 1 = last read returned data (no terminal read made)
template<class T> static void drive(T* rs, RunOut& o, bool terminal)
{
    o.n = 0; o.term = 1; o.calls = 0;
    uint8_t sz[NCALL + 1];
    for (unsigned c = 0; c < NCALL; c++) { uint8_t k = nondet_u8(); ASSUME(k >= 1 && k <= CMAX); sz[c] = k; }
    for (unsigned c = 0; c < NCALL + 2; c++) {
        if (c == NCALL + 1 && !terminal) break;
        size_t want = c < NCALL ? sz[c] : GMAX - o.n;
        if (want > GMAX - o.n) want = GMAX - o.n;
        if (want == 0) { CHECK(false, "harness: collection buffer too small for the bound"); break; }
        ssize_t r = rs->T::read(o.got + o.n, want);
        o.calls++;
        if (r < 0) { CHECK(r == -1, "error code is -1"); o.term = -1; break; }
        if (r == 0) { o.term = 0; break; }
        CHECK((size_t)r <= want, "read never returns more than asked");
        o.n += r;
    }
}
NOINL static void drive_chunked(CR* rs, RunOut& o, bool terminal) { drive<ChunkedBodyReadStream>(rs, o, terminal); }
NOINL static void drive_chunked2(CR* rs, RunOut& o, bool terminal) { drive<ChunkedBodyReadStream>(rs, o, terminal); }
NOINL static void drive_length(BodyReadStream* rs, RunOut& o, bool terminal) { drive<BodyReadStream>(rs, o, terminal); }
NOINL static bool eqn(const uint8_t* a, const uint8_t* b, unsigned n) { bool e = true; for (unsigned i = 0; i < GMAX; i++) { if (i >= n) break; if (a[i] != b[i]) e = false; } return e; }

// reference encoder (RFC 7230 4.1, no extensions/trailers): payload P[0..L) in chunks of symbolic sizes (each >= 1, sum == L),
// size as one hex digit (either case; with LEADZERO an optional leading zero), data, CRLF; then the last chunk "0 CRLF CRLF".
// With `sizes` given the chunk sizes are taken from there and written the way "%zx" does (what the library's writer must emit).
#ifndef NCHUNK
#define NCHUNK 1
#endif
NOINL static unsigned encode(uint8_t* w, const uint8_t* P, unsigned L, unsigned* nchunks, const uint8_t* sizes)
{
    unsigned wl = 0, done = 0, nc = 0;
    for (unsigned k = 0; k < NCHUNK; k++) {
        if (done >= L) break;
        uint8_t s;
        if (sizes) s = sizes[k];
        else { s = nondet_u8(); ASSUME(s >= 1 && s <= L - done); if (k == NCHUNK - 1) ASSUME(s == L - done); }
#ifdef LEADZERO
        if (!sizes && nondet_bool()) w[wl++] = '0';
#endif
        w[wl++] = s < 10 ? '0' + s : ((!sizes && nondet_bool()) ? 'A' : 'a') + s - 10;
        w[wl++] = '\r'; w[wl++] = '\n';
        for (unsigned i = 0; i < PMAX; i++) { if (i >= s) break; w[wl++] = P[done + i]; }
        w[wl++] = '\r'; w[wl++] = '\n';
        done += s; nc++;
    }
    w[wl++] = '0'; w[wl++] = '\r'; w[wl++] = '\n'; w[wl++] = '\r'; w[wl++] = '\n';
    *nchunks = nc;
    return wl;
}

extern "C" {

// (B) exactness, chunked: W = chunked coding of a symbolic payload; symbolic split into partial body / stream, symbolic
// fragmentation of the stream, symbolic caller sizes.   Modes: ALLPARTIAL (whole message arrived with the header),
// ONESHOT (every recv hands over all that is left), TERMINAL (make the read after the last data), TRUNC (message cut short).
void harness_chunked_exact()
{
    uint8_t P[PMAX + 1], W[WMAX + 1]; unsigned nc;
    uint8_t L = nondet_u8(); ASSUME(L <= PMAX);
    for (unsigned i = 0; i < PMAX; i++) P[i] = nondet_u8();
    unsigned wl = encode(W, P, L, &nc, nullptr);
    CHECK(wl <= WMAX, "harness: encoded message fits the wire bound");
#ifdef TRUNC
    uint8_t cut = nondet_u8(); ASSUME(cut < wl);      // the peer closes after `cut` bytes of the message
    const unsigned full = wl; wl = cut;
#endif
#ifdef ALLPARTIAL
    unsigned pb = wl;
#else
    uint8_t pb = nondet_u8(); ASSUME(pb <= wl);
#endif
#ifdef ONESHOT
    Wire* x = mkwire(wireA, W, wl, pb, LBA, true);
#else
    Wire* x = mkwire(wireA, W, wl, pb, LBA, false);
#endif
    CR* rs = new (&crA.v) CR(x, std::string_view(LBA, pb));
    RunOut o(GOTA);
#ifdef TERMINAL
    drive_chunked(rs, o, true);
#else
    drive_chunked(rs, o, false);
#endif
    CHECK(x->calls <= wl + 2 * o.calls + 2, "stream calls bounded by bytes served plus reader calls");
#ifndef TRUNC
    CHECK(o.term >= 0, "chunked body: no read reports an error");
    CHECK(o.n == L, "chunked body: number of bytes read equals the payload length");
    CHECK(eqn(o.got, P, L), "chunked body: bytes read equal the payload");
    // end of body: the reader is in its finished state, in which every further read returns 0 (harness_chunked_after_end)
    CHECK(rs->ChunkedBodyReadStream::close() == 0, "chunked body: close() reports a completely read body");
    CHECK(rs->finished(), "chunked body: reader finished after the payload was delivered");
#ifdef TERMINAL
    CHECK(o.term == 0, "chunked body: the read after the payload returns 0");
#endif
    CHECK(x->in_pos == x->in_len, "chunked body: the whole message including the final CRLF is consumed from the stream");
    CHECK(!x->closed, "chunked body: the connection is not closed for a well-formed message");
    if (L == PMAX && nc == NCHUNK) WITNESS("chunked: full payload in the maximum number of chunks");
    if (L == 0) WITNESS("chunked: empty body");
#ifndef ALLPARTIAL
    if (pb == 0 && L > 0) WITNESS("chunked: everything from the stream");
#ifdef ONESHOT
    if (pb > 0 && pb < wl && x->calls > 1) WITNESS("chunked: split message, several stream calls");
#else
    if (pb > 0 && pb < wl && x->calls > 3) WITNESS("chunked: split message, several stream calls");
#endif
#endif
    if (pb == wl && L > 0) WITNESS("chunked: everything in the partial body");
#if NCALL > 0
    if (o.calls == NCALL + 1 && o.n == L && L > 1) WITNESS("chunked: payload delivered over several reads");
#endif
#else
    // truncated message: what was delivered is a prefix of the payload, and the body is never reported complete
    CHECK(o.n <= L && eqn(o.got, P, o.n), "truncated chunked body: bytes read are a prefix of the payload");
    bool complete = rs->ChunkedBodyReadStream::close() == 0;
    // the only cut that leaves a complete body is inside the final CRLF (the last chunk line "0 CRLF" has been seen)
    CHECK(!complete || cut + 2 >= full, "truncated chunked body: not reported complete unless only the final CRLF is missing");
    if (complete) CHECK(o.n == L, "truncated chunked body: complete implies all payload delivered");
    if (!complete && o.term == -1) WITNESS("truncated: error reported");
    if (!complete && o.term == 0) WITNESS("truncated: end of stream inside chunk data");
    if (complete) WITNESS("truncated: only the final CRLF missing");
    if (o.n > 0 && !complete) WITNESS("truncated: some payload delivered before the cut");
#endif
}

// Lemma used by the harnesses that do not make a terminal read: in the finished state every read returns 0 and touches
// neither the stream nor the caller's buffer, whatever the rest of the state is.
void harness_chunked_after_end()
{
    uint8_t W[WMAX + 1]; for (unsigned i = 0; i < WMAX; i++) W[i] = nondet_u8();
    Wire* x = mkwire(wireA, W, WMAX, 0, LBA, false);
    CR* rs = new (&crA.v) CR(x, std::string_view(LBA, 0));
    rs->set(nondet_u64(), nondet_u64(), nondet_u64(), true);
    uint8_t buf[4] = {1, 2, 3, 4}; uint8_t c = nondet_u8(); ASSUME(c <= 4);
    ssize_t r = rs->ChunkedBodyReadStream::read(buf, c);
    CHECK(r == 0, "finished chunk reader: read returns 0");
    CHECK(x->calls == 0 && x->in_pos == 0, "finished chunk reader: stream untouched");
    CHECK(buf[0] == 1 && buf[1] == 2 && buf[2] == 3 && buf[3] == 4, "finished chunk reader: caller buffer untouched");
    CHECK(rs->ChunkedBodyReadStream::close() == 0 && rs->finished(), "finished chunk reader: stays finished");
    if (c == 4) WITNESS("after end: read of 4");
    if (c == 0) WITNESS("after end: read of 0");
}

// (A)/(D) arbitrary byte strings: the same W read under two independent splits / fragmentations gives the same result, and no
// read goes out of bounds or loops (bounds checks + unwinding assertions).
void harness_chunked_any()
{
    uint8_t W[WMAX + 1];
    uint8_t wl = nondet_u8(); ASSUME(wl <= WMAX);
    for (unsigned i = 0; i < WMAX; i++) {
        uint8_t c = nondet_u8();
#ifdef ALPHABET
        ASSUME(c == '\r' || c == '\n' || c == '0' || c == '1' || c == '2' || c == 'b' || c == 'X');
#endif
        W[i] = c;
    }
    // run A is the canonical delivery (the whole string arrived with the header, the stream is at its end); run B has a
    // symbolic split and fragmentation: every delivery agreeing with the canonical one means any two agree
    unsigned pa = wl;
    uint8_t pb = nondet_u8(); ASSUME(pb <= wl);
    Wire* xb = mkwire(wireB, W, wl, pb, LBB, false);
    CR* rb = new (&crB.v) CR(xb, std::string_view(LBB, pb));
    RunOut ob(GOTB);
#ifdef ANY_TERMINAL
    drive_chunked2(rb, ob, true);
#else
    drive_chunked2(rb, ob, false);
#endif
    bool cb = rb->ChunkedBodyReadStream::close() == 0;
    CHECK(xb->calls <= wl + 2 * ob.calls + 2, "any input: stream calls bounded by bytes served plus reader calls");
    CHECK(ob.n <= wl, "any input: never more bytes delivered than received");
    bool inside = true;
    for (unsigned i = 0; i < GMAX; i++) { if (i >= ob.n) break; bool f = false; for (unsigned j = 0; j < WMAX; j++) if (j < wl && W[j] == ob.got[i]) f = true; if (!f) inside = false; }
    CHECK(inside, "any input: every byte delivered is a byte of the message");
    if (cb && WMAX < 9) WITNESS("any: complete body");
    if (cb && ob.n > 0 && WMAX >= 9) WITNESS("any: complete body with payload");
    if (!cb && ob.n > 0) WITNESS("any: incomplete body, some bytes delivered");
    if (!cb && ob.term == -1) WITNESS("any: error");
#ifdef ANY_TERMINAL
    if (!cb && ob.term == 0) WITNESS("any: end of stream inside a chunk");
#endif
#ifdef TWO_RUNS
    Wire* xa = mkwire(wireA, W, wl, pa, LBA, false);
    CR* ra = new (&crA.v) CR(xa, std::string_view(LBA, pa));
    RunOut oa(GOTA);
#ifdef ANY_TERMINAL
    drive_chunked(ra, oa, true);
#else
    drive_chunked(ra, oa, false);
#endif
    bool ca = ra->ChunkedBodyReadStream::close() == 0;
    CHECK(ca == cb, "any input: whether the body is complete does not depend on the fragmentation");
#if NCALL == 0
    // one read asking for everything (then the terminal read): same bytes, same codes
    CHECK(oa.n == ob.n && eqn(oa.got, ob.got, oa.n), "any input: bytes read do not depend on the fragmentation");
    CHECK(oa.term == ob.term, "any input: return code class does not depend on the fragmentation");
#else
    // an error return discards what that call had already copied, so with different caller sizes only complete bodies
    // are compared byte for byte; otherwise one result is a prefix of the other
    if (ca) CHECK(oa.n == ob.n, "any input: complete bodies have the same length");
    CHECK(eqn(oa.got, ob.got, oa.n < ob.n ? oa.n : ob.n), "any input: bytes read agree on the common prefix");
#endif
    if (ca && pb == 0 && wl >= 4) WITNESS("any: all-stream vs all-partial");
#endif
}

// (B) exactness, Content-Length and close-delimited framing (BodyReadStream).  W: symbolic bytes; N: declared body length
// (may be shorter than what is there - following bytes belong to the next message - or longer - truncated body).
void harness_length_exact()
{
    uint8_t W[WMAX + 1];
    uint8_t wl = nondet_u8(); ASSUME(wl <= WMAX);
    for (unsigned i = 0; i < WMAX; i++) W[i] = nondet_u8();
    uint8_t pb = nondet_u8(); ASSUME(pb <= wl);
#ifdef CLOSEDELIM
    size_t N = SIZE_MAX; unsigned E = wl;
#else
    uint8_t n8 = nondet_u8(); ASSUME(n8 <= WMAX + 2); size_t N = n8;
    unsigned E = N < wl ? N : wl;                                    // expected body: the first min(N, |W|) bytes
#endif
    Wire* x = mkwire(wireA, W, wl, pb, LBA, false);
    BodyReadStream* rs = new (&brA.v) BodyReadStream(x, std::string_view(LBA, pb), N);
    RunOut o(GOTA);
#ifdef DO_CLOSE
    // caller gives up after NCALL reads: close() must skip exactly the rest of the body or fail
    o.n = 0; o.calls = 0;
    for (unsigned c = 0; c < NCALL; c++) {
        uint8_t k = nondet_u8(); ASSUME(k >= 1 && k <= CMAX && k <= GMAX - o.n);
        ssize_t r = rs->BodyReadStream::read(o.got + o.n, k); o.calls++;
        CHECK(r >= 0 && r <= k, "length body: read returns 0..count"); o.n += r;
    }
    CHECK(o.n <= E && eqn(o.got, W, o.n), "length body: bytes read are a prefix of the body");
    int cr = rs->BodyReadStream::close();
    CHECK(cr == 0 || cr == -1, "length body: close returns 0 or -1");
#ifdef CLOSEDELIM
    CHECK(cr == 0, "close-delimited body: close succeeds");
#else
    if (cr == 0) CHECK(x->in_pos == (N > pb ? N : pb) && N <= wl, "length body: after a successful close the stream stands right behind the body");
    if (N <= wl && N >= pb) CHECK(cr == 0, "length body: close succeeds when the rest of the body is there to be skipped");
    if (cr == 0 && o.n < N) WITNESS("close: skipped unread body bytes");
    if (cr == -1 && N > wl) WITNESS("close: truncated body");
    if (cr == -1 && N < pb) WITNESS("close: bytes of the next message already received");
#endif
    if (o.n > 0) WITNESS("close: after some reads");
#else
    drive_length(rs, o, true);
    CHECK(o.term == 0, "length body: reads end with 0, no error");
    CHECK(o.n == E, "length body: number of bytes read is min(declared length, bytes before end of stream)");
    CHECK(eqn(o.got, W, E), "length body: bytes read are exactly the first bytes of the stream");
    CHECK(x->in_pos == (E > pb ? E : pb), "length body: nothing beyond the body is taken from the stream");
    CHECK(x->calls <= o.calls, "length body: at most one stream read per call");
    if (E == WMAX) WITNESS("length: full-size body");
    if (E == 0) WITNESS("length: empty body");
#ifndef CLOSEDELIM
    if (pb > E) WITNESS("length: partial buffer holds bytes of the next message");
#endif
    if (pb > 0 && pb < E && o.calls > 2) WITNESS("length: body split between partial buffer and stream, several reads");
#ifndef CLOSEDELIM
    if (N > wl) WITNESS("length: truncated body ends with 0");
#endif
#endif
}

// (C) writer: ChunkedBodyWriteStream emits exactly the chunked coding of what was written (write or writev, close())
// and, with ROUNDTRIP, the matching reader returns the payload from those wire bytes.
void harness_chunked_write()
{
    uint8_t P[PMAX + 1], REF[WMAX + 1]; unsigned nc;
    uint8_t L = nondet_u8(); ASSUME(L <= PMAX);
    for (unsigned i = 0; i < PMAX; i++) P[i] = nondet_u8();
    Wire* xw = mkwire(wireB, P, 0, 0, LBB, true);
    ChunkedBodyWriteStream* ws = new (&cwA.v) ChunkedBodyWriteStream(xw);
    uint8_t sizes[NCHUNK + 1]; unsigned done = 0;
    for (unsigned k = 0; k < NCHUNK; k++) {
        sizes[k] = 0;
        if (done >= L) continue;
        uint8_t s = nondet_u8(); ASSUME(s >= 1 && s <= L - done); if (k == NCHUNK - 1) ASSUME(s == L - done);
        sizes[k] = s;
        ssize_t r;
        if (nondet_bool()) r = ws->ChunkedBodyWriteStream::write(P + done, s);
        else {
            uint8_t s0 = nondet_u8(); ASSUME(s0 <= s);
            struct iovec iov[2] = {{P + done, s0}, {P + done + s0, (size_t)(s - s0)}};
            r = ws->ChunkedBodyWriteStream::writev(iov, 2);
        }
        CHECK(r == s, "chunked writer: write returns the number of payload bytes");
        done += s;
    }
    CHECK(ws->ChunkedBodyWriteStream::close() == 0, "chunked writer: close succeeds");
    CHECK(ws->ChunkedBodyWriteStream::close() == 0, "chunked writer: second close is a no-op");
    unsigned wl = encode(REF, P, L, &nc, sizes);
    CHECK(xw->out_len == wl, "chunked writer: wire length is that of the chunked coding");
    bool same = true; for (unsigned i = 0; i < WMAX; i++) { if (i < wl && xw->out[i] != REF[i]) same = false; }
    CHECK(same, "chunked writer: wire bytes are the chunked coding of the payload, terminated by the last chunk once");
    if (L == PMAX && nc == NCHUNK) WITNESS("writer: full payload in the maximum number of writes");
    if (L == 0) WITNESS("writer: empty body");
#ifdef ROUNDTRIP
    uint8_t pb = nondet_u8(); ASSUME(pb <= wl);
    Wire* x = mkwire(wireA, xw->out, wl, pb, LBA, false);
    CR* rs = new (&crA.v) CR(x, std::string_view(LBA, pb));
    RunOut o(GOTA); drive_chunked(rs, o, false);
    CHECK(o.term >= 0 && o.n == L && eqn(o.got, P, L), "round trip: the chunk reader returns exactly what was written");
    CHECK(rs->ChunkedBodyReadStream::close() == 0 && x->in_pos == x->in_len, "round trip: body complete, stream fully consumed");
    if (L == PMAX && pb > 0 && pb < wl) WITNESS("round trip: full payload, split wire");
#endif
}

// (C) BodyWriteStream(size N) passes through exactly the first N bytes; BodyReadStream(N) reads them back
void harness_length_write()
{
    uint8_t P[PMAX + 1];
    uint8_t L = nondet_u8(); ASSUME(L <= PMAX);
    for (unsigned i = 0; i < PMAX; i++) P[i] = nondet_u8();
    uint8_t n8 = nondet_u8(); ASSUME(n8 <= PMAX + 1); size_t N = n8;       // declared Content-Length
    Wire* xw = mkwire(wireB, P, 0, 0, LBB, true);
    BodyWriteStream* ws = new (&bwA.v) BodyWriteStream(xw, N);
    unsigned done = 0, acc = 0;
    for (unsigned k = 0; k < NCHUNK; k++) {
        if (done >= L) break;
        uint8_t s = nondet_u8(); ASSUME(s >= 1 && s <= L - done); if (k == NCHUNK - 1) ASSUME(s == L - done);
        size_t room = N > acc ? N - acc : 0, exp = s < room ? s : room;
        ssize_t r;
        if (nondet_bool()) r = ws->BodyWriteStream::write(P + done, s);
        else {
            uint8_t s0 = nondet_u8(); ASSUME(s0 <= s);
            struct iovec iov[2] = {{P + done, s0}, {P + done + s0, (size_t)(s - s0)}};
            r = ws->BodyWriteStream::writev(iov, 2);
        }
        CHECK(r == (ssize_t)exp, "length writer: write returns min(count, declared length - written)");
        done += s; acc += exp;
    }
    unsigned E = L < N ? L : N;
    CHECK(xw->out_len == E && eqn(xw->out, P, E), "length writer: wire holds exactly the first min(written, declared) bytes");
    Wire* x = mkwire(wireA, xw->out, E, 0, LBA, false);
    uint8_t pb = nondet_u8(); ASSUME(pb <= E);
    for (unsigned i = 0; i < PMAX; i++) { if (i >= pb) break; LBA[i] = (char)xw->out[i]; }
    x->in_pos = pb;
    BodyReadStream* rs = new (&brA.v) BodyReadStream(x, std::string_view(LBA, pb), E);
    RunOut o(GOTA); drive_length(rs, o, true);
    CHECK(o.term == 0 && o.n == E && eqn(o.got, P, E), "round trip: the length reader returns exactly what went over the wire");
    if (L > N) WITNESS("length writer: overflow truncated");
    if (E == PMAX) WITNESS("length writer: full payload");
    if (E == 0) WITNESS("length writer: empty");
}

}
