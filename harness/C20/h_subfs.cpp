// C20: no path reaches outside the base directory of a sub-filesystem.
// Real code: fs/subfs.cpp (SubFileSystem, PathCat - included textually), fs/path.cpp (Path::level_valid, iterator::set), fs/path.h
#include "verif_h.h"
#include "nolog.h"
#include <utime.h>
#include <sys/statfs.h>
#include <sys/statvfs.h>
#include <sys/time.h>
#ifdef SMALL_PATH_MAX
// length-limit harness only: the platform constant PATH_MAX is shrunk so the concatenation buffer is small;
// the comparison `len2 >= sizeof(buf) - 2` and the copies are the real code.
#include <limits.h>
#undef PATH_MAX
#define PATH_MAX SMALL_PATH_MAX
#endif
#include "fs/path.cpp"
#include "fs/subfs.cpp"
using namespace photon::fs;

#ifndef PLEN
#define PLEN 6
#endif
#ifndef PLEN2
#define PLEN2 3
#endif

// The underlay copies what it is given at call time (PathCat's buffer lives only for the duration of the forwarded call).
#define RECMAX (PLEN + 4)
struct Rec { bool called, null; char str[RECMAX + 1]; };
static Rec rec1, rec2; static int ncalls;
NOINL static void record(Rec& r, const char* p)
{
    r.called = true; r.null = (p == nullptr);
    if (p) { unsigned i = 0; for (; i < RECMAX && p[i]; i++) r.str[i] = p[i]; r.str[i] = 0; }
}
#define R1(p) { record(rec1, (p)); ncalls++; }
#define R2(p, q) { record(rec1, (p)); record(rec2, (q)); ncalls++; }

struct RecFS : public IFileSystem, public IFileSystemXAttr {
    IFile* open(const char* p, int) override { R1(p); return nullptr; }
    IFile* open(const char* p, int, mode_t) override { R1(p); return nullptr; }
    IFile* creat(const char* p, mode_t) override { R1(p); return nullptr; }
    int mkdir(const char* p, mode_t) override { R1(p); return 0; }
    int rmdir(const char* p) override { R1(p); return 0; }
    int symlink(const char* o, const char* n) override { R1(n); return 0; }
    ssize_t readlink(const char* p, char*, size_t) override { R1(p); return 0; }
    int link(const char* o, const char* n) override { R2(o, n); return 0; }
    int rename(const char* o, const char* n) override { R2(o, n); return 0; }
    int unlink(const char* p) override { R1(p); return 0; }
    int chmod(const char* p, mode_t) override { R1(p); return 0; }
    int chown(const char* p, uid_t, gid_t) override { R1(p); return 0; }
    int lchown(const char* p, uid_t, gid_t) override { R1(p); return 0; }
    int statfs(const char* p, struct statfs*) override { R1(p); return 0; }
    int statvfs(const char* p, struct statvfs*) override { R1(p); return 0; }
    int stat(const char* p, struct stat* st) override { R1(p); st->st_mode = S_IFDIR; return 0; }
    int lstat(const char* p, struct stat*) override { R1(p); return 0; }
    int access(const char* p, int) override { R1(p); return 0; }
    int truncate(const char* p, off_t) override { R1(p); return 0; }
    int utime(const char* p, const struct utimbuf*) override { R1(p); return 0; }
    int utimes(const char* p, const struct timeval*) override { R1(p); return 0; }
    int lutimes(const char* p, const struct timeval*) override { R1(p); return 0; }
    int mknod(const char* p, mode_t, dev_t) override { R1(p); return 0; }
    int syncfs() override { return 0; }
    photon::fs::DIR* opendir(const char* p) override { R1(p); return nullptr; }
    ssize_t getxattr(const char* p, const char*, void*, size_t) override { R1(p); return 0; }
    ssize_t lgetxattr(const char* p, const char*, void*, size_t) override { R1(p); return 0; }
    ssize_t listxattr(const char* p, char*, size_t) override { R1(p); return 0; }
    ssize_t llistxattr(const char* p, char*, size_t) override { R1(p); return 0; }
    int setxattr(const char* p, const char*, const void*, size_t, int) override { R1(p); return 0; }
    int lsetxattr(const char* p, const char*, const void*, size_t, int) override { R1(p); return 0; }
    int removexattr(const char* p, const char*) override { R1(p); return 0; }
    int lremovexattr(const char* p, const char*) override { R1(p); return 0; }
};

// reference: lexical resolution relative to the base; true iff some prefix climbs above the base
static bool ref_escapes(const char* s, unsigned n)
{
    int depth = 0; unsigned i = 0;
    while (i < n) {
        while (i < n && s[i] == '/') i++;
        unsigned b = i;
        while (i < n && s[i] != '/') i++;
        unsigned len = i - b;
        if (len == 0) break;
        if (len == 1 && s[b] == '.') continue;
        if (len == 2 && s[b] == '.' && s[b + 1] == '.') { if (--depth < 0) return true; }
        else depth++;
    }
    return false;
}

static void sym_string(char* s, unsigned cap)
{
    // every byte is fully symbolic (any of the 256 values, NUL ends the string early): the reference resolver below treats
    // everything except '/', '.' and NUL as an ordinary character, so a change that gives another byte a special meaning shows up
    for (unsigned i = 0; i < cap; i++) s[i] = (char)nondet_u8();
    s[cap] = 0;
}
static unsigned slen(const char* s) { unsigned n = 0; while (s[n]) n++; return n; }

static RecFS under;
static SubFileSystem sub;
// stand-in for libstdc++'s __dynamic_cast for the one cast SubFileSystem::init performs (IFileSystem* -> IFileSystemXAttr*)
extern "C" void* verif_dyncast(const void* p, const void*, const void*, long)
{
    return p == (const void*)static_cast<IFileSystem*>(&under) ? (void*)static_cast<IFileSystemXAttr*>(&under) : nullptr;
}

static void check_forwarded(const Rec& got, const char* s, const char* base, unsigned bl, bool must_accept)
{
    unsigned n = slen(s);
    bool esc = ref_escapes(s, n);
    CHECK(got.called, "underlay saw the call");
    if (!got.null) {
        CHECK(!esc, "a forwarded path never resolves above the base directory");
        bool same = true;
        for (unsigned i = 0; i < bl; i++) if (got.str[i] != base[i]) same = false;
        for (unsigned i = 0; i <= n; i++) if (got.str[bl + i] != s[i]) same = false;
        CHECK(same, "forwarded path is base prefix + the given path, byte for byte");
    }
    if (!esc && must_accept) CHECK(!got.null, "a path that stays at or below the base is accepted");
}

static void do_op(uint8_t op, const char* s)
{
    struct stat st; struct statfs sf; struct statvfs sv; char b4[4];
    switch (op) {
    case 0: sub.open(s, 0); break;
    case 1: sub.stat(s, &st); break;
    case 2: sub.open(s, 0, 0644); break;
    case 3: sub.creat(s, 0644); break;
    case 4: sub.mkdir(s, 0755); break;
    case 5: sub.rmdir(s); break;
    case 6: sub.symlink("t", s); break;
    case 7: sub.readlink(s, b4, 4); break;
    case 8: sub.unlink(s); break;
    case 9: sub.chmod(s, 0644); break;
    case 10: sub.chown(s, 0, 0); break;
    case 11: sub.lchown(s, 0, 0); break;
    case 12: sub.opendir(s); break;
    case 13: sub.lstat(s, &st); break;
    case 14: sub.access(s, 0); break;
    case 15: sub.truncate(s, 0); break;
    case 16: sub.statfs(s, &sf); break;
    case 17: sub.statvfs(s, &sv); break;
    case 18: sub.utime(s, nullptr); break;
    case 19: sub.utimes(s, nullptr); break;
    case 20: sub.lutimes(s, nullptr); break;
    case 21: sub.mknod(s, 0644, 0); break;
    case 22: sub.getxattr(s, "n", b4, 4); break;
    case 23: sub.lgetxattr(s, "n", b4, 4); break;
    case 24: sub.listxattr(s, b4, 4); break;
    case 25: sub.llistxattr(s, b4, 4); break;
    case 26: sub.setxattr(s, "n", b4, 4, 0); break;
    case 27: sub.lsetxattr(s, "n", b4, 4, 0); break;
    case 28: sub.removexattr(s, "n"); break;
    default: sub.lremovexattr(s, "n"); break;
    }
}

extern "C" {

// OPLO..OPHI: which operations this harness instance covers (deep strings for open/stat, short ones for all 30)
void harness_onepath()
{
    char s[PLEN + 1];
    sym_string(s, PLEN);
#ifdef BASE_SLASH
    const char base[] = "b/"; int r = sub.init(&under, "b/", false);
#else
    const char base[] = "b/"; int r = sub.init(&under, "b", false);
#endif
    CHECK(r == 0 && sub.base_path_len == 2, "base path initialised with a trailing slash");
    ncalls = 0;
    uint8_t op = nondet_u8();
    ASSUME(op >= OPLO && op <= OPHI);
    do_op(op, s);
    CHECK(ncalls == 1, "the operation is forwarded exactly once");
    check_forwarded(rec1, s, base, 2, true);
    if (!rec1.null) WITNESS("onepath: some path accepted");
    if (rec1.null) WITNESS("onepath: some path rejected");
    if (!rec1.null && slen(s) == PLEN) WITNESS("onepath: full-length path accepted");
    if (op == OPHI) WITNESS("onepath: last operation of the range reached");
}

void harness_twopath()
{
    char s[PLEN2 + 1], t[PLEN2 + 1];
    sym_string(s, PLEN2); sym_string(t, PLEN2);
    const char base[] = "b/"; int r = sub.init(&under, "b", false);
    ASSUME(r == 0);
    ncalls = 0;
    if (nondet_bool()) sub.rename(s, t); else sub.link(s, t);
    CHECK(ncalls == 1, "the operation is forwarded exactly once");
    check_forwarded(rec1, s, base, 2, true);
    check_forwarded(rec2, t, base, 2, true);
    if (!rec1.null && !rec2.null) WITNESS("twopath: both accepted");
    if (rec1.null && !rec2.null) WITNESS("twopath: first rejected only");
}

// length limit: a path that does not fit the PATH_MAX buffer is rejected, never truncated or overflowed.
// The base length is made symbolic and large instead of unrolling a 4 KB string.
void harness_lenlimit()
{
    char s[PLEN2 + 1];
    sym_string(s, PLEN2);
    uint32_t bl = nondet_u32();
    ASSUME(bl >= 1 && bl <= PATH_MAX - 2);      // what init() admits
    sub.underlayfs = &under; sub.base_path_len = bl;
    const char* p = s;
    SubFileSystem::PathCat pc(&sub, p);
    unsigned n = slen(s);
    if (p) {
        CHECK(p == pc.buf, "accepted path points into the concatenation buffer");
        CHECK((size_t)bl + n + 1 <= sizeof(pc.buf), "concatenated path with terminator fits the buffer");
        CHECK(pc.buf[bl + n] == 0, "terminated");
        bool same = true; for (unsigned i = 0; i < PLEN2; i++) { if (i >= n) break; if (pc.buf[bl + i] != s[i]) same = false; }
        CHECK(same, "the whole path is copied behind the base prefix (never truncated)");
    }
    if (p) WITNESS("lenlimit: accepted"); else WITNESS("lenlimit: rejected");
    if (!p && !ref_escapes(s, n)) WITNESS("lenlimit: rejected for length");
}
}
