from vlib import Job, REPO
TVL = ['-include', 'nolog.h', REPO + '/common/iovector.cpp']

META = dict(
    bounds='path strings of length <= N of arbitrary bytes (5 quick, 8 thorough), every one of the 30 one-path operations and the 2 two-path operations '
           '(two strings of length <= 3 / 4), base "b" and "b/"; length limit with symbolic base length 1..PATH_MAX-2',
    outside='longer paths; symlinks inside the underlay (the property is about lexical resolution); symlink() target string (file content, not a path of the sub-filesystem)',
    assumptions=[                 'logging macros have empty bodies', 'NDEBUG build: assert() compiled out'],
)
SRC = 'C20/h_subfs.cpp'
SH = ['libc.c']
MAP = ['--map', '^@__dynamic_cast$=verif_dyncast']
def US(n): return ['f__ZL6recordR3RecPKc.0:%d' % (n + 6)]

def jobs(tier):
    q = tier == 'quick'
    n = 5 if q else 8; n2 = 3 if q else 4
    D = ['PLEN=%d' % n, 'PLEN2=%d' % n2, 'SMALL_PATH_MAX=32', 'OPLO=0', 'OPHI=0']
    J = [
        Job('onepath', SRC, 'harness_onepath', unwindset=US(n), defines=['PLEN=%d' % n, 'PLEN2=%d' % n2, 'SMALL_PATH_MAX=32', 'OPLO=1', 'OPHI=1'], unwind=n + 3, shims=SH, ir2c=MAP, tv=True, tv_link=TVL, timeout=1500 if q else 7000,
            desc='stat, symbolic path', bounds='path length <= %d' % n),
        Job('onepath_baseslash', SRC, 'harness_onepath', unwindset=US(n), tv=True, tv_link=TVL, defines=['PLEN=%d' % n, 'PLEN2=%d' % n2, 'SMALL_PATH_MAX=32', 'BASE_SLASH', 'OPLO=1', 'OPHI=1'], unwind=n + 3, shims=SH, ir2c=MAP, timeout=1500 if q else 7000,
            desc='stat, base given with trailing slash', bounds='path length <= %d' % n),
        Job('twopath', SRC, 'harness_twopath', unwindset=US(n2), defines=['PLEN=%d' % n2, 'PLEN2=%d' % n2, 'SMALL_PATH_MAX=32', 'OPLO=0', 'OPHI=0'], unwind=n2 + 3, shims=SH, ir2c=MAP, tv=True, tv_link=TVL, timeout=1500 if q else 7000,
            desc='rename/link, two symbolic paths', bounds='path lengths <= %d' % n2),
        Job('lenlimit', SRC, 'harness_lenlimit', unwindset=['verif_memcpy_n.0:34'], defines=['PLEN=%d' % n2, 'PLEN2=%d' % n2, 'SMALL_PATH_MAX=32', 'OPLO=0', 'OPHI=0'], unwind=n2 + 3, shims=SH, ir2c=MAP, timeout=1500,
            desc='PathCat length check, symbolic base length', bounds='PATH_MAX shrunk to 32, base length 1..30, path length <= %d' % n2),
    ]
    if q: J = [j for j in J if j.name != 'onepath_baseslash']
    na = 2 if q else 3
    for lo in range(0, 30, 6):
        J.append(Job('allops_%d' % lo, SRC, 'harness_onepath', unwindset=US(na), defines=['SMALL_PATH_MAX=32', 'PLEN=%d' % na, 'PLEN2=2', 'OPLO=%d' % lo, 'OPHI=%d' % (lo + 5)], unwind=na + 3, shims=SH, ir2c=MAP,
                     timeout=1500, desc='operations %d..%d of the 30 one-path operations' % (lo, lo + 5), bounds='path length <= %d' % na))
    return J
