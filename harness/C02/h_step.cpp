// C02, one signal() step (sequential, no scheduler): from every wait-queue state of two sleeping waiters with symbolic demands and a
// symbolic count, one real semaphore::signal(n) - real try_resume (in-order prefix + out-of-order scan), ScopedLockHead, indirect_lock,
// thread::dequeue_ready_atomic, the real spinlocks - wakes exactly the waiters the count covers, each once, and comes back (on one
// vCPU a spin iteration inside signal() is a self-deadlock: nobody else can release the lock).
// prelocked_thread_interrupt is the kernel-contract stand-in (rt/kcontract.h: checks its precondition, runs the real dequeue_ready_atomic).
#include "verif_h.h"
#include "nolog.h"
#define noinline
#include "thread/thread.cpp"
#undef noinline
#define KN 3
#include "kcontract.h"
using namespace photon;
#ifndef INORDER
#define INORDER 1
#endif
static Raw<semaphore> S;
static inline void enqueue_sleeper(int i, uint64_t demand)
{
    thread* th = K_thread(i);
    th->state = states::SLEEPING; th->semaphore_count = demand;
    thread_list* q = (thread_list*)&S.v.q;
    q->push_back(th); th->waitq = q;
    K_blocked[i] = true;
}
extern "C" void harness_signal_step()
{
    K_init();
    uint8_t c0 = nondet_u8(), d0 = nondet_u8(), d1 = nondet_u8(), n = nondet_u8(), nw = nondet_u8();
    ASSUME(c0 <= 3 && n >= 1 && n <= 3 && d0 >= 1 && d0 <= 4 && d1 >= 1 && d1 <= 4 && nw <= 2);
    new (&S.v) semaphore(c0, INORDER);
    // representation invariant of a quiescent semaphore with waiters: the head is not covered (otherwise it would not be waiting);
    // in out-of-order mode no waiter is covered
    if (nw >= 1) { ASSUME(c0 < d0); enqueue_sleeper(0, d0); }
    if (nw >= 2) { if (!INORDER) ASSUME(c0 < d1); enqueue_sleeper(1, d1); }
    verif_set_tid(2); CURRENT = K_thread(2);          // the signaller is a third thread of the same vCPU
    S.v.signal(n);
    uint64_t cnt = (uint64_t)c0 + n;
    CHECK(S.v.count() == cnt, "signal adds its tokens to the count (woken waiters take theirs when they run)");
    // reference: who must have been woken
    bool w0 = false, w1 = false; uint64_t left = cnt;
    if (nw >= 1 && d0 <= left) { w0 = true; left -= d0; }
    if (nw >= 2) {
        if (INORDER) { if (w0 && d1 <= left) { w1 = true; left -= d1; } }
        else if (d1 <= left) { w1 = true; left -= d1; }
    }
    if (nw >= 1) {
        CHECK((K_wakes[0] == 1) == w0, "the head waiter is woken exactly when the count covers its demand");
        CHECK(K_wakes[0] <= 1, "a waiter is woken at most once");
        if (w0) CHECK(K_thread(0)->waitq == nullptr && K_thread(0)->state == states::READY, "a woken waiter has left the queue and is READY");
        else CHECK(K_thread(0)->waitq != nullptr && K_thread(0)->state == states::SLEEPING, "a waiter that is not covered stays queued and asleep");
    }
    if (nw >= 2) {
        CHECK((K_wakes[1] == 1) == w1, "the second waiter is woken exactly when the resume rule of the mode covers it (in order: behind a woken head; out of order: whenever the rest covers it)");
        CHECK(K_wakes[1] <= 1, "a waiter is woken at most once");
        if (w1) CHECK(K_thread(1)->waitq == nullptr && K_thread(1)->state == states::READY, "a woken waiter has left the queue and is READY");
        else CHECK(K_thread(1)->waitq != nullptr && K_thread(1)->state == states::SLEEPING, "a waiter that is not covered stays queued and asleep");
    }
    CHECK(!S.v.splock.locked() && !S.v.q.lock.locked() && !K_thread(0)->lock.locked() && !K_thread(1)->lock.locked(), "signal() returns with every lock released");
    if (nw == 2 && w0 && w1) WITNESS("both waiters woken by one signal");
    if (!INORDER && nw == 2 && !w0 && w1) WITNESS("out of order: the second waiter is woken past an uncovered head");
    if (nw == 2 && !w0 && !w1) WITNESS("nobody is covered");
    if (nw == 0) WITNESS("signal with an empty queue");
}
