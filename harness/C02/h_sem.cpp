// C02 (photon semaphore on the kernel contract K): tokens are conserved, a failed wait takes nothing, no waiter stays
// blocked while the count covers the demand at the head of the queue (any waiter in out-of-order mode).
// Real code: semaphore::wait_interruptible / wait / signal / try_resume / try_subtract / count, waitq::wait_defer,
// ScopedLockHead, indirect_lock, waitq_translate_errno, thread_interrupt guard, dequeue_ready_atomic - inlined into the entries.
#include "verif_h.h"
#include "nolog.h"
#define noinline
#include "thread/thread.cpp"
#undef noinline
#include "kcontract.h"
using namespace photon;

#ifndef INORDER
#define INORDER 1
#endif
static Raw<semaphore> S;
static uint64_t initial, signalled, taken;
static uint64_t demand[KN]; static int wret[KN], werr[KN]; static bool waiting_role[KN];

static inline Timeout sym_timeout()
{
    uint8_t k = nondet_u8(); ASSUME(k < 3);
    if (k == 0) return Timeout();
    if (k == 1) return Timeout(100);
    return Timeout(0);
}
template<int ME> static inline __attribute__((always_inline)) void waiter()
{
#if defined(SCEN2W) || defined(GHOST_FIXED)   // two queued waiters with fixed demands [2, 1]; only the head's deadline is symbolic (never / finite)
    uint8_t m = ME == 0 ? 2 : 1;
    Timeout t = (ME == 0 && nondet_bool()) ? Timeout(100) : Timeout();
#else
    uint8_t m = nondet_u8(); ASSUME(m >= 1 && m <= 2);
    Timeout t = sym_timeout();
#endif
    demand[ME] = m; waiting_role[ME] = true;
#ifdef UNINTERRUPTIBLE
    int r = S.v.wait(m, t);
#else
    int r = S.v.wait_interruptible(m, t);
#endif
    int e = errno;
    wret[ME] = r; werr[ME] = e;
    if (r == 0) taken += m;
    else { CHECK(r == -1, "failure is -1"); CHECK(e == ETIMEDOUT || e == EINTR, "failure reason is the timeout or the interrupter's errno"); }
    CHECK(K_thread(ME)->waitq == nullptr, "a returned waiter is in no wait queue");
}
#ifdef GHOST_WAITER
// A second waiter that is pure queue state: thread object KN-1 never runs; "it called wait(d) and went to sleep" is its whole history
// (on one vCPU that prefix of wait() is atomic: set semaphore_count, try_subtract fails, enqueue + sleep).  It keeps the scenario at two
// running threads (three running threads on the real primitive exhaust the solver's memory).
static bool ghost_queued; static uint64_t ghost_demand;
static inline void ghost_wait(uint64_t d)
{
    if (S.v.count() >= d && INORDER && S.v.q.th == nullptr) return;     // it would not have blocked
    if (S.v.count() >= d && !INORDER) return;
    thread* th = K_thread(KN - 1);
    th->state = states::SLEEPING; th->semaphore_count = d;
    thread_list* q = (thread_list*)&S.v.q; q->push_back(th); th->waitq = q;
    K_blocked[KN - 1] = true; K_finite[KN - 1] = false;
    ghost_queued = true; ghost_demand = d; demand[KN - 1] = d; waiting_role[KN - 1] = true;
}
#endif
template<int ME> static inline __attribute__((always_inline)) void signaller()
{
#ifdef GHOST_WAITER
#ifdef GHOST_FIXED
    ghost_wait(1);
#else
    { uint8_t d = nondet_u8(); ASSUME(d >= 1 && d <= 2); if (nondet_bool()) ghost_wait(d); }
#endif
#endif
    for (int k = 0; k < NSIG; k++) {
        uint8_t n = nondet_u8(); ASSUME(n <= 2);
        signalled += n;
        S.v.signal(n);
#if (defined(SCEN2W) || defined(GHOST_WAITER)) && !defined(NO_BARGE)   // the signaller may take a token itself right away (a newcomer that overtakes the woken waiter)
        if (nondet_bool()) { int r = S.v.wait_interruptible(1, Timeout(0)); if (r == 0) taken += 1; }
#endif
#if NSIG > 1
        thread_yield();
#endif
    }
}
extern "C" {
void thread_entry_0() { waiter<0>(); }
#ifdef TWO_WAITERS
void thread_entry_1() { waiter<1>(); }
void thread_entry_2() { signaller<2>(); }
#if NT > 3
void thread_entry_3() { thread_interrupt(K_thread(0), EINTR); }
#endif
#else
void thread_entry_1() { signaller<1>(); }
#if NT > 2
void thread_entry_2() { thread_interrupt(K_thread(0), EINTR); }
#endif
#endif
NOINL void world_init()
{
#if defined(SCEN2W) || defined(GHOST_FIXED)
    uint8_t c = 0;
#else
    uint8_t c = nondet_u8(); ASSUME(c <= 2);
#endif
    initial = c;
    new (&S.v) semaphore(c, INORDER);
}
NOINL void world_final(uint32_t all_done, uint32_t stuck)
{
    uint64_t cnt = S.v.count();
    if (all_done) {
        CHECK(initial + signalled == cnt + taken, "tokens conserved: initial + signalled == remaining + taken by successful waits");
#ifdef GHOST_WAITER
        if (ghost_queued && K_is_blocked(KN - 1)) {     // the constructed waiter never runs: it may legitimately still be queued, but then only uncovered
            CHECK(S.v.q.th == K_thread(KN - 1) && K_thread(KN - 1)->single(), "quiescence: only the constructed waiter is left in the queue");
            CHECK(cnt < ghost_demand, "no lost wake-up: the remaining waiter is blocked only while the count does not cover its demand");
            WITNESS("quiescence with the constructed waiter still queued");
        } else
#endif
        CHECK(S.v.q.th == nullptr, "quiescence: wait queue empty");
        if (wret[0] == 0) WITNESS("waiter 0 obtained its tokens");
        if (wret[0] == -1 && werr[0] == ETIMEDOUT) WITNESS("waiter 0 timed out");
#if defined(TWO_WAITERS)
        if (wret[0] == 0 && wret[1] == 0) WITNESS("both waiters obtained their tokens");
#elif NT > 2
        if (wret[0] == -1 && werr[0] == EINTR) WITNESS("waiter 0 was interrupted");
#endif
    }
    if (stuck) {
        // everybody else is finished or blocked for ever: a blocked waiter is legitimate only if the count does not cover it
        thread* head = S.v.q.th;
        CHECK(head != nullptr, "stuck state: the blocked threads are in the semaphore's queue");
        if (head) {
            if (INORDER) CHECK(cnt < head->semaphore_count, "no lost wake-up: the head waiter is blocked only while the count does not cover its demand");
            for (int i = 0; i < KN; i++) if (waiting_role[i] && K_is_blocked(i)) {
                if (!INORDER) CHECK(cnt < demand[i], "no lost wake-up (out-of-order mode): no blocked waiter is covered by the count");
            }
        }
        WITNESS("a waiter can stay blocked when the count never covers its demand");
#ifdef GHOST_WAITER
        if (ghost_queued) WITNESS("stuck state with the second (constructed) waiter queued");
#endif
    }
}
}
