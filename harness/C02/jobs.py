import sys, os
sys.path.insert(0, os.path.join(os.path.dirname(__file__), '..', 'C01'))
from vlib import Job
import importlib.util
_spec = importlib.util.spec_from_file_location('c01jobs', os.path.join(os.path.dirname(__file__), '..', 'C01', 'jobs.py'))
_c01 = importlib.util.module_from_spec(_spec); _spec.loader.exec_module(_c01)
kjob = _c01.kjob

META = dict(
    bounds='1-2 waiters (demand 1..2, timeout never / finite / already expired), 1 signaller (1-2 signals of 0..2 tokens), optional interrupter, initial count 0..2, '
           'in-order and out-of-order resume; cooperative scheduling (switch at blocking calls) with symbolic timeout/interrupt events, <= 6-8 execution slices',
    outside='pre-emption inside the primitive (multi-vCPU interleaving of the atomic steps), signal() from a plain OS thread with CURRENT == nullptr, destroy-after-wait, more threads / slices',
    assumptions=['kernel contract K (rt/kcontract.h) stands for the scheduler: enqueue+sleep is atomic w.r.t. other model threads, the deferred unlock runs right after it, '
                 'a finite-deadline sleeper may be timed out at any moment', 'await-as-assume for spin iterations'],
)
SRC = 'C02/h_sem.cpp'
def jobs(tier):
    q = tier == 'quick'
    J = []
    KF = 'C02-ooo-scan-self-deadlock'
    for inorder in (1, 0):
        tag = 'io' if inorder else 'ooo'
        J.append(kjob('sem_1w1s_%s' % tag, SRC, 2, 4, ['INORDER=%d' % inorder, 'NSIG=1'], desc='1 waiter, 1 signaller, %s' % tag, timeout=900, unwind=3, mem_gb=8))
        J.append(kjob('sem_1w1s1i_%s' % tag, SRC, 3, 5, ['INORDER=%d' % inorder, 'NSIG=1'], desc='1 waiter, 1 signaller, 1 interrupter of the waiter, %s' % tag, timeout=900, unwind=3, mem_gb=8))
        j = kjob('sem_2w1s_%s' % tag, SRC, 3, 6, ['INORDER=%d' % inorder, 'NSIG=1', 'TWO_WAITERS'], desc='2 waiters (demands 1..2, symbolic deadlines), 1 signaller (0..2 tokens), %s' % tag, timeout=900, unwind=4, mem_gb=10)
        if not inorder: j.kf = KF
        if not (q and inorder): J.append(j)      # the in-order 3-thread job takes 7 min: thorough tier (the constructed-waiter jobs cover two queued waiters in quick)
        if os.environ.get('VERIF_EXPERIMENTAL'):      # never ran to completion in this session
            j = kjob('sem_2w2s_%s' % tag, SRC, 3, 8, ['INORDER=%d' % inorder, 'NSIG=2', 'TWO_WAITERS'], desc='2 waiters, 2 signals with a yield in between, %s' % tag, timeout=3000, unwind=4, mem_gb=16)
            if not inorder: j.kf = KF
            J.append(j)
    if os.environ.get('VERIF_EXPERIMENTAL'): J.append(kjob('sem_1w1s_io_mv', SRC, 2, 5, ['INORDER=1', 'NSIG=1'], mode='preempt', desc='1 waiter, 1 signaller on another vCPU / OS thread: pre-emption before every atomic operation and blocking call', timeout=3000, unwind=3, mem_gb=12))
    # a second waiter that is pure queue state (thread object KN-1 never runs) behind the running one; the signaller may take a token itself (overtaking the resumed waiter)
    J.append(kjob('sem_2w_ghost_nobarge_io', SRC, 2, 4, ['INORDER=1', 'NSIG=1', 'GHOST_WAITER', 'GHOST_FIXED', 'NO_BARGE'], kn=3, desc='1 running waiter (demand 2, deadline never / finite) + 1 constructed sleeping waiter (demand 1) queued behind it, 1 signal of 0..2 tokens, in-order', timeout=900, unwind=3, mem_gb=8))
    J.append(kjob('sem_2w_ghost_io', SRC, 2, 4, ['INORDER=1', 'NSIG=1', 'GHOST_WAITER', 'GHOST_FIXED'], kn=3, desc='the same, and the signaller may take a token itself right after signalling (overtakes the resumed waiter)', timeout=900, unwind=3, mem_gb=8))
    J.append(kjob('sem_2w_ghost_sym_io', SRC, 2, 5, ['INORDER=1', 'NSIG=1', 'GHOST_WAITER'], kn=3, desc='running waiter and constructed waiter with symbolic demands 1..2, symbolic initial count and deadline, overtaking signaller', timeout=900, unwind=3, mem_gb=10))
    for j in J: j.cbmc += ['-DVERIF_STUCK_IS_LEGAL']
    for inorder in (1, 0):
        J.append(Job('signal_step_%s' % ('io' if inorder else 'ooo'), 'C02/h_step.cpp', 'harness_signal_step', defines=['INORDER=%d' % inorder], clang=_c01.KCLANG,
                     ir2c=['--asm', 'rol $$1, $0=verif_rol1', '--map', r'^@_ZN6photonL26prelocked_thread_interruptEPNS_6threadEi$=K_prelocked_interrupt'], shims=['libc.c', 'tid.c'],
                     cbmc=['-DVERIF_SPIN_IS_DEADLOCK'], unwind=4, timeout=900, mem_gb=8, kf='C02-ooo-scan-self-deadlock' if not inorder else None,
                     desc='one real signal(n) from every queue state of <= 2 sleeping waiters (demands 1..4, count 0..3), %s resume' % ('in-order' if inorder else 'out-of-order'),
                     bounds='<= 2 queued waiters, demands 1..4, count 0..3, signal 1..3; one step, sequential'))
    return J
