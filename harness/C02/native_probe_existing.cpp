// Probe for two suspected defects of the UNCHANGED library (not part of the seeded change).
// build: g++ -std=c++17 -O1 -I/tmp/mut/C02/include probe_existing.cpp -o probe_existing -L/tmp/mut/C02/_build/output -lphoton -Wl,-rpath,/tmp/mut/C02/_build/output -lpthread
// usage: ./probe_existing barge | ./probe_existing ooo
#include <photon/photon.h>
#include <photon/thread/thread.h>
#include <photon/thread/thread11.h>
#include <photon/common/alog.h>
#include <cstdio>
#include <cstring>
#include <cerrno>
#include <unistd.h>
#include <signal.h>

using namespace photon;

struct Waiter { semaphore* sem; uint64_t demand; bool done = false; int ret = 0; };
static void waiter(Waiter* w) { w->ret = w->sem->wait(w->demand); w->done = true; }

int main(int argc, char** argv) {
    setvbuf(stdout, nullptr, _IONBF, 0);
    set_log_output_level(ALOG_WARN);
    photon::init(INIT_EVENT_DEFAULT, INIT_IO_NONE);
    bool ooo = argc > 1 && !strcmp(argv[1], "ooo");
    int bad = 0;
    if (!ooo) {
        // in-order; queue [A(2), B(1)]; signal(2) wakes A; main barges 1 token before A runs;
        // A re-queues at the TAIL -> queue [B(1), A(2)], count = 1 covers the head B, nobody wakes it.
        semaphore sem(0);
        Waiter A{&sem, 2}, B{&sem, 1};
        auto ja = thread_enable_join(thread_create11(waiter, &A)); thread_yield();
        auto jb = thread_enable_join(thread_create11(waiter, &B)); thread_yield();
        sem.signal(2);
        sem.wait(1);                // immediate
        thread_usleep(200 * 1000);
        printf("barge: A.done=%d B.done=%d count=%llu\n", A.done, B.done, (unsigned long long)sem.count());
        if (!B.done && sem.count() >= 1) {
            printf("barge: LOST WAKE-UP in unchanged library: head waiter B(1) blocked with count=1\n");
            bad = 1;
        }
        sem.signal(2);
        thread_join(ja); thread_join(jb);
    } else {
        // out-of-order; queue [A(5), B(1)]; signal(1) must wake B.
        alarm(5);                   // SIGALRM kills us if signal() hangs
        semaphore sem(0, false);
        Waiter A{&sem, 5}, B{&sem, 1};
        auto ja = thread_enable_join(thread_create11(waiter, &A)); thread_yield();
        auto jb = thread_enable_join(thread_create11(waiter, &B)); thread_yield();
        printf("ooo: calling signal(1) (hangs => killed by SIGALRM after 5s)\n");
        sem.signal(1);
        printf("ooo: signal returned\n");
        thread_usleep(100 * 1000);
        printf("ooo: B.done=%d\n", B.done);
        if (!B.done) bad = 1;
        sem.signal(5);
        thread_join(ja); thread_join(jb);
    }
    photon::fini();
    return bad;
}
