from vlib import Job

META = dict(
    bounds='asymmetric run-queue lock: 1 foreground (1-2 lock/unlock rounds) + 1-2 background try-lockers, every interleaving of the atomic steps, sequential consistency',
    outside='thread_create / die / join / migrate / work-stealing steps on the real run queue (Layer-A one-step checks: not built in this session), ThreadPoolBase, stack allocators, '
            'the context-switch assembly; memory models weaker than SC (see DESIGN: under the x86-TSO model of CBMC the same harness reports a violation, which could not be reproduced natively)',
    assumptions=['await-as-assume for spin iterations'],
)
SRC = 'C05/h_asym.cpp'
SH = ['libc.c', 'threads.c']

def jobs(tier):
    q = tier == 'quick'
    J = []
    for nbg, rounds in ((1, 2), (2, 1)) + (() if q else ((2, 2),)):
        J.append(Job('asym_1fg%dbg_%dr_sc' % (nbg, rounds), SRC, 'harness_asym', defines=['NBG=%d' % nbg, 'ROUNDS=%d' % rounds], unwind=4, shims=SH, cbmc=['--mm', 'sc'],
                     nochecks=True, unwinding_assertions=False, timeout=600, desc='asymmetric_spinLock: 1 foreground x %d rounds, %d background, SC' % (rounds, nbg),
                     bounds='1 fg x %d rounds, %d bg, SC, retry loops unwound 4' % (rounds, nbg)))
    return J
