from vlib import Job

META = dict(
    bounds='(a) asymmetric run-queue lock: 1 foreground (1-2 lock/unlock rounds) + 1-2 background try-lockers, every interleaving of the atomic steps, sequential consistency. '
           '(b) work stealing, one step: ONE real try_work_stealing() (ws_scan_standbyq / ws_scan_runq / ws_scan_q) of vCPU V\'s idler against every valid state of a victim vCPU U with '
           '3 (thorough 4) threads besides its idle worker, each symbolic in {READY in the run list, RUNNING (at most one), STANDBY in the standbyq}, symbolic list order, thread flags '
           '(joinable / enable / pause stealing), heap index (a STANDBY thread may still be in the sleep heap), busy thread lock, vCPU stealing flags and nthreads counters. '
           '(c) migration, one step: ONE real thread_migrate() (another READY / SLEEPING / foreign thread, or the caller itself through defer_migrate_current + do_defer_migrate; same or other target vCPU; '
           'target standbyq empty or not) followed by one real resume_threads() round of the target vCPU.',
    outside='thread_create (placement-new of the thread object inside its own stack buffer: struct-in-char-buffer, not encodable at acceptable cost), thread::die / thread_join hand-shake and stack release '
            '(needs the noreturn die switch), ThreadPoolBase, stack allocators, the context-switch assembly; true concurrency of the stealer with the victim vCPU (the step is executed atomically: '
            'what the run-queue / standbyq / thread locks are supposed to guarantee - the lock itself is (a)); more than two vCPUs; memory models weaker than SC (see DESIGN: under the x86-TSO model of '
            'CBMC harness (a) reports a violation, which could not be reproduced natively)',
    assumptions=['await-as-assume for spin iterations (a); (b),(c): single OS thread, every lock is free when taken unless the scenario marks it busy; a busy lock makes try_lock fail',
                 'switch_context_defer(from,to,defer,arg) (inline asm) is replaced by harness code that runs the deferred function on behalf of "to" and returns to the harness (the migrated caller '
                 'continues only when the target vCPU schedules it)',
                 'thread / vcpu_t objects are zero-initialised static storage + the constructor\'s field values; the vCPU ring has two members; engines are recording stand-ins'],
)
SRC = 'C05/h_asym.cpp'
SH = ['libc.c', 'threads.c']
SWITCH = '_ZN6photon14switch_contextEPNS_6threadES1_'
SWITCHD = '_ZN6photon20switch_context_deferEPNS_6threadES1_PFvPvES2_'
UPD = '_ZN6photonL10update_nowEv'
LIFE_CLANG = ['-fno-access-control'] + sum([['-mllvm', '-force-attribute=%s:noinline' % f] for f in (SWITCH, SWITCHD, UPD)], [])
LIFE_IR2C = ['--nop', '^@_ZN6photon15NullEventEngine', '--asm', 'rdtsc=verif_rdtsc', '--map', '^@%s$=verif_update_now' % UPD, '--map', '^@%s$=verif_switch' % SWITCH,
             '--map', '^@%s$=verif_switch_defer' % SWITCHD]


def jobs(tier):
    q = tier == 'quick'
    J = []
    for nbg, rounds in ((1, 2), (2, 1)) + (() if q else ((2, 2),)):
        J.append(Job('asym_1fg%dbg_%dr_sc' % (nbg, rounds), SRC, 'harness_asym', defines=['NBG=%d' % nbg, 'ROUNDS=%d' % rounds], unwind=4, shims=SH, cbmc=['--mm', 'sc'],
                     nochecks=True, unwinding_assertions=False, timeout=600, desc='asymmetric_spinLock: 1 foreground x %d rounds, %d background, SC' % (rounds, nbg),
                     bounds='1 fg x %d rounds, %d bg, SC, retry loops unwound 4' % (rounds, nbg)))
    nv = 3 if q else 4
    J.append(Job('steal_step_n%d' % nv, 'C05/h_life.cpp', 'harness_steal', defines=['H_STEAL', 'NV=%d' % nv], unwind=nv + 4, shims=['c04_heap.c'], clang=LIFE_CLANG, ir2c=LIFE_IR2C,
                 timeout=900 if q else 3600, mem_gb=6 if q else 16,
                 desc='one try_work_stealing() round: no thread lost / duplicated / stolen while RUNNING, busy or unstealable; th->vcpu and nthreads follow the thread; locks released',
                 bounds='victim vCPU with %d threads + idle worker, thief with its idler only' % nv))
    J.append(Job('migrate_step', 'C05/h_life.cpp', 'harness_migrate', defines=['H_MIGRATE', 'NV=3'], unwind=7, shims=['c04_heap.c'], clang=LIFE_CLANG, ir2c=LIFE_IR2C,
                 timeout=900 if q else 3600, mem_gb=6,
                 desc='one thread_migrate() (other thread / self, same / other vCPU) + the target\'s resume_threads(): the thread is in exactly one place, owner and nthreads follow, refused migrations move nothing',
                 bounds='2 vCPUs; caller + 2 threads on V, 1 running + <= 1 standby thread on U'))
    DIE = '_photon_switch_context_defer_die'
    # ORDER=1 (the joiner waits first: cond.wait(lock) -> cvar_do_wait with lock/unlock passed as function pointers) gave no verdict: SAT back end out of memory at 20 GB
    # (930 k steps); it is not registered
    # ORDER=0 (die first) also ran out of memory (22 GB, 340 k steps).  Both stay behind VERIF_EXPERIMENTAL: not part of any registered command.
    import os
    for order in ((0, 1) if os.environ.get('VERIF_EXPERIMENTAL') else ()):
        J.append(Job('join_%s' % ('die_first' if order == 0 else 'join_first'), 'C05/h_life.cpp', 'harness_join', defines=['H_JOIN', 'ORDER=%d' % order, 'NV=3'], unwind=7, shims=['c04_heap.c', 'c05_stubs.c'],
                     clang=LIFE_CLANG, ir2c=LIFE_IR2C + ['--map', '^@%s$=verif_die_switch' % DIE, '--map', '^@verif_call_die$=_photon_thread_die', '--unreachable-returns'], cbmc=['-DVERIF_DIE_RETURNS'],
                     timeout=900 if q else 3600, mem_gb=8,
                     desc='completion hand-shake, %s: real thread::die + thread_join; join returns the return value after DONE, the stack is released exactly once (by the join, or by a non-joinable thread itself), nthreads drops by one, no lost wake-up of the joiner' % ('the thread dies before the join' if order == 0 else 'the joiner waits first'),
                     bounds='1 dying thread, 1 joiner, 0-1 bystander on one vCPU; %s' % ('joinable symbolic' if order == 0 else 'joinable')))
    return J
