// C05 (run-queue protection): the asymmetric spin lock that guards a vCPU's run queue against work stealers / migration
// never admits the owner (foreground) and a remote vCPU (background) at once, and a background party never waits while holding it.
// Real code: photon::asymmetric_spinLock (thread/thread.cpp), native CBMC threads (shared state is two booleans).
#include "verif_h.h"
#include "nolog.h"
#include "thread/thread.cpp"
extern "C" void verif_spawn(void (*f)(void*), void* arg);
using namespace photon;
static asymmetric_spinLock L;
static volatile int cs = 0;
static volatile int done = 0;
extern "C" {
NOINL void fg(void* a)
{
    for (int k = 0; k < ROUNDS; k++) {
        L.foreground_lock();
        cs = cs + 1; CHECK(cs == 1, "mutual exclusion: foreground enters only when no background holder"); cs = cs - 1;
        L.foreground_unlock();
    }
    __atomic_fetch_add(&done, 1, __ATOMIC_SEQ_CST);
}
NOINL void bg(void* a)
{
    if (L.background_try_lock()) {
        cs = cs + 1; CHECK(cs == 1, "mutual exclusion: background enters only when nobody else holds the lock"); cs = cs - 1;
        L.background_unlock();
    }
    __atomic_fetch_add(&done, 1, __ATOMIC_SEQ_CST);
}
void harness_asym()
{
    verif_spawn(fg, 0);
    for (long i = 0; i < NBG; i++) verif_spawn(bg, (void*)i);
    ASSUME(done == 1 + NBG);
    WITNESS("all parties finished");
}
}
