// C05 (Layer A): the places a live thread can be - run list, standbyq, sleep heap - across two vCPU objects, one real step at a time.
//   harness_steal   : ONE call of the real try_work_stealing() (ws_scan_standbyq / ws_scan_runq / ws_scan_q) by the idler of vCPU V against
//                     an arbitrary valid state of vCPU U (run list with its idle worker, standbyq, per-thread flags / heap index / busy lock).
//   harness_migrate : ONE real thread_migrate(th, U) of another thread or of the caller itself (defer_migrate_current / do_thread_migrate),
//                     followed by one real resume_threads() round of U.
// Oracle (C05): every thread is afterwards in exactly one list, th->vcpu names the vCPU whose list it is in, the RUNNING thread and threads that
// are unstealable (flag off / paused / still in a sleep heap / busy) stay where they were, nthreads moves with the thread and the sum is
// conserved, every lock taken is released (and no busy lock is released by the stealer).
// Real code: thread/thread.cpp (textual include).  The context switch (inline asm) is a harness stand-in (ir2c --map), as in C04.
#include "verif_h.h"
#include "nolog.h"
#include "thread/thread.cpp"
using namespace photon;

#ifndef NV
#define NV 3                // threads of the victim vCPU besides its idle worker
#endif
#define NT (NV + 2)
static Raw<thread> TH0, TH1, TH2, TH3, TH4, TH5;
static Raw<vcpu_t> VCV, VCU;
static inline thread* T(int i)
{
    switch (i) { case 0: return &TH0.v; case 1: return &TH1.v; case 2: return &TH2.v; case 3: return &TH3.v; case 4: return &TH4.v; default: return &TH5.v; }
}
struct Eng : public MasterEventEngine {
    int cancels;
    int wait_for_fd(int, uint32_t, Timeout) override { return -1; }
    ssize_t wait_and_fire_events(uint64_t) override { return 0; }
    int cancel_wait() override { cancels++; return 0; }
};
static Raw<Eng> ENGV, ENGU;
extern "C" NOINL uint64_t verif_update_now()
{
    uint64_t c = nondet_u64(); ASSUME(c >= photon::now);
    photon::now = c;
    return c;
}
static void init_thread(thread* t, uint16_t st, vcpu_t* vc)
{
    t->__prev_ptr = t->__next_ptr = t;
    t->idx = -1; t->state = st; t->vcpu = vc; t->waitq = nullptr; t->error_number = 0; t->flags = 0;
}
static void init_vcpus()
{
    vcpu_t *v = &VCV.v, *u = &VCU.v;
    v->master_event_engine = new (&ENGV.v) Eng; u->master_event_engine = new (&ENGU.v) Eng;
    v->state = u->state = states::RUNNING;
    v->__next_ptr = v->__prev_ptr = u; u->__next_ptr = u->__prev_ptr = v;      // the published vCPU ring
    v->sleepq.q.reserve(2); u->sleepq.q.reserve(2);
    ts_updater.store(1);
}
enum { IN_NONE = 0, IN_VRUN = 1, IN_URUN = 2, IN_USTANDBY = 4, IN_VSTANDBY = 8 };
static uint8_t where_[NT + 1];
static void walk(thread* head, uint8_t tag)
{
    if (!head) return;
    thread* p = head;
    bool closed = false;
    for (int k = 0; k <= NT; k++) {
        bool known = false;
        for (int i = 0; i < NT; i++) if (p == T(i)) { CHECK(!(where_[i] & tag), "a thread is linked once in a list"); where_[i] |= tag; known = true; }
        CHECK(known, "list members are thread objects of the scenario");
        CHECK(p->next()->prev() == p, "list links are consistent");
        p = p->next();
        if (p == head) { closed = true; break; }
    }
    CHECK(closed, "list is circular through its head");
}
static thread *VHEAD, *UHEAD;          // a thread known to be in V's / U's run list (the one running there)
static void locate()
{
    for (int i = 0; i < NT; i++) where_[i] = 0;
    walk(VHEAD, IN_VRUN); walk(UHEAD, IN_URUN); walk(VCU.v.standbyq.node, IN_USTANDBY); walk(VCV.v.standbyq.node, IN_VSTANDBY);
}

// =====================================================================================================================
#ifdef H_STEAL
enum { K_RUN_READY = 0, K_RUN_RUNNING = 1, K_STANDBY = 2 };
static uint8_t kind0[NT], busy0[NT], steal0[NT]; static uint16_t st0[NT]; static int idx0[NT];

extern "C" void harness_steal()
{
    init_vcpus();
    vcpu_t *v = &VCV.v, *u = &VCU.v;
    v->flags = nondet_u8() & 3; u->flags = nondet_u8() & 3;
    // thief: its idler is the only runnable thread and calls try_work_stealing()
    thread* idl = T(0); init_thread(idl, states::RUNNING, v); v->idle_worker = idl; CURRENT = idl;
    // victim: idle worker (never stealable) + NV threads
    thread* uidl = T(1); init_thread(uidl, states::READY, u); u->idle_worker = uidl;
    bool some_running = false;
    int nstandby = 0;
    for (int i = 2; i < NT; i++) {
        thread* t = T(i);
        uint8_t k = nondet_u8(); ASSUME(k <= K_STANDBY);
        if (k == K_RUN_RUNNING) { ASSUME(!some_running); some_running = true; }
        kind0[i] = k;
        init_thread(t, k == K_RUN_READY ? states::READY : k == K_RUN_RUNNING ? states::RUNNING : states::STANDBY, u);
        st0[i] = t->state;
        t->flags = nondet_u8() & 7;                               // joinable, enable_work_stealing, pause_work_stealing
        // a STANDBY thread may still sit in U's sleep heap (cross-vCPU interrupt of a sleeper): idx != -1; READY/RUNNING threads never do
        if (k == K_STANDBY && nondet_bool()) t->idx = 0;
        busy0[i] = nondet_bool();                                  // its lock is held by somebody else right now (interrupt / die / join in progress)
        if (busy0[i]) t->lock.lock();
        steal0[i] = t->stealable(); idx0[i] = t->idx;
        bool front = nondet_bool();
        if (k == K_STANDBY) { nstandby++; if (front) u->standbyq.push_front(t); else u->standbyq.push_back(t); }
        else { if (front) uidl->insert_after(t); else uidl->insert_tail(t); }
    }
    if (!some_running) uidl->state = states::RUNNING;              // then U's idler itself is the one running
    uint32_t nv0 = nondet_u8(), nu0 = nondet_u8(); ASSUME(nv0 >= 1 && nv0 < 100 && nu0 >= NV + 1 && nu0 < 100);
    v->nthreads = nv0; u->nthreads = nu0;

    VHEAD = idl; UHEAD = uidl;
    bool ret = try_work_stealing(v);

    locate();
    int moved = 0, from_standby = 0, from_run = 0;
    for (int i = 2; i < NT; i++) {
        thread* t = T(i);
        uint8_t w = where_[i];
        CHECK(w == IN_VRUN || w == IN_URUN || w == IN_USTANDBY, "after a stealing round every thread is in exactly one list (never lost, never duplicated)");
        bool m = (w == IN_VRUN);
        if (!m) CHECK(w == (kind0[i] == K_STANDBY ? IN_USTANDBY : IN_URUN), "a thread that was not stolen stays in the list it was in");
        CHECK((t->vcpu == v) == m && (t->vcpu == u) == !m, "th->vcpu names the vCPU whose list holds the thread");
        if (m) {
            moved++;
            if (kind0[i] == K_STANDBY) from_standby++; else from_run++;
            CHECK(kind0[i] != K_RUN_RUNNING, "the thread RUNNING on the victim vCPU is never stolen (it would run on two vCPUs)");
            CHECK(steal0[i], "only threads that allow work stealing and are out of every sleep heap are stolen");
            CHECK(!busy0[i], "a thread whose lock is held by somebody else is skipped, not stolen");
            CHECK((v->flags & VCPU_ENABLE_ACTIVE_WORK_STEALING) && (u->flags & VCPU_ENABLE_PASSIVE_WORK_STEALING), "stealing only between vCPUs that enabled it");
        }
        CHECK(t->idx == idx0[i], "heap index untouched");
        if (kind0[i] != K_STANDBY) CHECK(t->state == st0[i], "stealing does not change the state of a run-list thread");
        CHECK(t->lock.locked() == (bool)busy0[i], "thread locks: taken ones are released, a busy one is never released by the stealer");
    }
    CHECK(where_[0] == IN_VRUN && where_[1] == IN_URUN, "the idle workers stay in their own run lists");
    CHECK(T(0)->vcpu == v && T(1)->vcpu == u && CURRENT == T(0), "idle workers keep their vCPU; the thief's idler stays current");
    CHECK(ret == (moved > 0), "try_work_stealing() reports whether it brought threads");
    CHECK(v->nthreads == nv0 + moved && u->nthreads == nu0 - moved, "nthreads moves with the stolen threads; the sum is conserved");
    CHECK(!from_standby || !from_run, "one round takes from one source");
    CHECK(!u->runq_lock.background_locked.load() && !u->runq_lock.foreground_locked.load() && !v->runq_lock.background_locked.load(), "run-queue locks released");
    CHECK(!u->standbyq.lock.locked() && !v->standbyq.lock.locked() && !vcpu_t::vcpu_list_lock.locked(), "standbyq and vCPU-list locks released");
    if (moved >= 2 && from_run) WITNESS("two threads stolen from the run list");
    if (moved >= 2 && from_standby) WITNESS("two threads stolen from the standbyq");
    if (moved == 1 && from_standby && nstandby >= 2) WITNESS("standbyq partially stolen");
    if (!moved && (v->flags & 1) && (u->flags & 2)) WITNESS("enabled but nothing eligible");
    if (moved && some_running) WITNESS("stolen while a victim thread is RUNNING");
    if (moved == NV) WITNESS("everything stolen");
}
#endif

// =====================================================================================================================
#ifdef H_MIGRATE
static int deferred_runs;
// stands for switch_context_defer(from, to, defer, arg): "to" runs, and the deferred function is executed on its stack first
extern "C" NOINL void verif_switch_defer(thread* from, thread* to, void (*defer)(void*), void* arg)
{
    CHECK(CURRENT == to && to->state == states::RUNNING, "the switch target is current and RUNNING");
    CHECK(from->state == states::READY, "a self-migrating thread is switched out READY");
    CHECK(defer == &do_defer_migrate, "self-migration defers do_defer_migrate");
    deferred_runs++;
    do_defer_migrate(arg);
    // "from" continues only when vCPU U schedules it; the harness returns here to inspect the state at that instant
}
extern "C" NOINL void verif_switch(thread*, thread*) { CHECK(false, "no plain context switch in a migration step"); }

extern "C" void harness_migrate()
{
    init_vcpus();
    vcpu_t *v = &VCV.v, *u = &VCU.v;
    thread* me = T(0); init_thread(me, states::RUNNING, v); CURRENT = me;
    thread* ucur = T(1); init_thread(ucur, states::RUNNING, u);                 // whatever runs on U
    thread* a = T(2); thread* b = T(3);
    uint8_t ka = nondet_u8(); ASSUME(ka <= 2);                                  // 0 READY in V's run list, 1 SLEEPING (in V's heap), 2 READY on U (foreign)
    init_thread(a, ka == 1 ? states::SLEEPING : states::READY, ka == 2 ? u : v);
    init_thread(b, states::READY, v);
    bool a_first = nondet_bool();
    if (ka == 0) { if (a_first) { me->insert_tail(a); me->insert_tail(b); } else { me->insert_tail(b); me->insert_tail(a); } }
    else { me->insert_tail(b); if (ka == 2) ucur->insert_tail(a); else { a->ts_wakeup = nondet_u64(); v->sleepq.push(a); } }
    bool pre = nondet_bool();                                                    // U's standbyq already holds a thread
    thread* c = T(4); init_thread(c, states::STANDBY, u);
    if (pre) u->standbyq.push_back(c);
    uint32_t nv0 = nondet_u8(), nu0 = nondet_u8(); ASSUME(nv0 >= 3 && nv0 < 100 && nu0 >= 2 && nu0 < 100);
    v->nthreads = nv0; u->nthreads = nu0;
    bool self = nondet_bool(), same = nondet_bool();
    thread* tgt = self ? me : a;
    vcpu_t* dst = same ? v : u;

    int r = thread_migrate(tgt, dst);

    VHEAD = CURRENT; UHEAD = ucur;              // V's run list is the ring through whatever runs on V now
    locate();
    bool should = !same && (self || ka == 0);
    CHECK(r == 0 || r == -1, "thread_migrate returns 0 or -1");
    if (same) CHECK(r == 0, "migrating to the vCPU the caller is on is a successful no-op");
    if (!same && !self && ka != 0) CHECK(r == -1, "only a READY thread of the caller's vCPU can be migrated by another thread");
    if (should) {
        int i = self ? 0 : 2;
        CHECK(r == 0, "migration of a READY thread / of the caller succeeds");
        CHECK(where_[i] == IN_USTANDBY, "the migrated thread is in the target's standbyq and nowhere else");
        CHECK(tgt->state == states::STANDBY && tgt->vcpu == u, "the migrated thread is STANDBY and owned by the target vCPU");
        CHECK(v->nthreads == nv0 - 1 && u->nthreads == nu0 + 1, "nthreads moves with the migrated thread");
        CHECK(ENGU.v.cancels >= 1, "the target vCPU's engine wait is cancelled so that it picks the thread up");
        CHECK(deferred_runs == (self ? 1 : 0), "self-migration happens on the next thread's stack, exactly once");
        if (self) CHECK(CURRENT != me && CURRENT->state == states::RUNNING && (where_[CURRENT == a ? 2 : 3] == IN_VRUN), "V goes on with another thread of its run list");
        else CHECK(CURRENT == me && me->state == states::RUNNING, "the caller keeps running");
    } else {
        CHECK(where_[0] == IN_VRUN && where_[2] == (ka == 0 ? IN_VRUN : ka == 2 ? IN_URUN : IN_NONE), "a refused or no-op migration moves nothing");
        CHECK(v->nthreads == nv0 && u->nthreads == nu0 && a->vcpu == (ka == 2 ? u : v) && me->vcpu == v, "a refused or no-op migration changes no ownership");
        CHECK(CURRENT == me && me->state == states::RUNNING && deferred_runs == 0, "the caller keeps running");
    }
    CHECK(where_[3] == IN_VRUN && b->vcpu == v && b->state == (CURRENT == b ? states::RUNNING : states::READY), "a bystander thread stays on its vCPU");
    CHECK(where_[4] == (pre ? IN_USTANDBY : IN_NONE), "threads already in the target's standbyq stay there");
    CHECK(!me->lock.locked() && !a->lock.locked() && !u->standbyq.lock.locked() && !v->runq_lock.foreground_locked.load(), "locks released");
    if (should && self) WITNESS("self migration");
    if (should && !self && pre) WITNESS("migration of another thread behind a queued one");
    if (r == -1) WITNESS("refused");

    // the target vCPU's next scheduling round picks the thread up: it becomes READY in U's run list, once
    if (should) {
        CURRENT = ucur;
        RunQ rq; resume_threads(u, rq);
        locate();
        CHECK(where_[self ? 0 : 2] == IN_URUN && tgt->state == states::READY && tgt->vcpu == u, "after the target's scheduling round the migrated thread is READY in its run list, once");
        CHECK(u->standbyq.node == nullptr, "standbyq drained");
        if (pre) CHECK(where_[4] == IN_URUN, "the earlier standby thread is resumed as well");
    }
}
#endif

// =====================================================================================================================
// harness_join : the completion hand-shake.  One dying thread TH (its entry function has returned: the real _photon_thread_die / thread::die run),
// one thread ME that joins it with the real thread_join (thread.cond / thread.lock), a bystander B.  Two orders:
//   ORDER 0  TH dies first (ME is READY meanwhile), then ME calls thread_join;
//   ORDER 1  ME calls thread_join first and goes to sleep in th->cond.wait(th->lock); TH then runs and dies, which must wake ME.
// joinable is symbolic in ORDER 0 (a non-joinable thread releases its own stack exactly once through the deferred dispose and is not joined).
// Stand-ins: the final noreturn switch _photon_switch_context_defer_die(arg, func, to) -> verif_die_switch (runs the deferred function "on the next thread's
// stack" and returns; rt/verif_rt.h VERIF_DIE_RETURNS); switch_context_defer -> verif_switch_defer (runs the deferred unlock, then lets TH run and die);
// photon_thread_dealloc -> counting delegate; deallocate_tls -> nop.
#ifdef H_JOIN
#ifndef ORDER
#define ORDER 0
#endif
extern "C" { uint32_t verif_die_switched; }
// _photon_thread_die is declared noreturn: the compiler would drop everything after a direct call.  The harness calls this undefined, returning
// declaration instead, which the translator maps onto the real function (ir2c --map verif_call_die=_photon_thread_die).
extern "C" void verif_call_die(thread*);
static int n_dealloc, n_die_switch; static void* dealloc_buf; static size_t dealloc_size; static bool dealloc_before_done;
#define ME (&TH0.v)
#define TH (&TH2.v)
#define BY (&TH3.v)
static char STACKBUF[64];
static void rec_dealloc(void*, void* p, size_t n) { n_dealloc++; dealloc_buf = p; dealloc_size = n; if (TH->state != states::DONE) dealloc_before_done = true; }
extern "C" NOINL void verif_die_switch(void* arg, uint64_t func, void** to_ref)
{
    vcpu_t* v = &VCV.v;
    n_die_switch++;
    CHECK(TH->state == states::DONE, "a dying thread is DONE before it leaves its stack");
    CHECK(TH->lock.locked(), "thread.lock is held across the final switch (released, or the stack disposed, only on the next thread's stack)");
    CHECK(CURRENT != TH && CURRENT->state == states::RUNNING && CURRENT->vcpu == v, "the vCPU goes on with another thread that is RUNNING");
    CHECK(to_ref == CURRENT->stack.pointer_ref(), "the switch target is the new current thread");
    auto f = &thread::dispose;
    if (func == (uint64_t&)f) {
        CHECK(!TH->is_joinable() && arg == TH, "only a non-joinable thread disposes of its own stack");
        TH->dispose();
    } else {
        CHECK(func == (uint64_t)&spinlock_unlock && arg == &TH->lock && TH->is_joinable(), "a joinable thread only releases its lock: the joiner disposes");
        spinlock_unlock(arg);
    }
    verif_die_switched = 1;
}
extern "C" NOINL void verif_switch_defer(thread* from, thread* to, void (*defer)(void*), void* arg)
{
#if ORDER == 1
    CHECK(from == ME && from->state == states::SLEEPING && from->waitq != nullptr, "the joiner sleeps in the dying thread's condition variable");
    CHECK(CURRENT == to && to->state == states::RUNNING, "the switch target is current and RUNNING");
    CHECK(defer == &spinlock_unlock && arg == &TH->lock, "cond.wait(lock) releases the lock on the next thread's stack");
    spinlock_unlock(arg);
    // whoever runs now yields until TH is scheduled; TH's entry function returns: it dies
    for (int s = 0; s < 2; s++) { if (CURRENT == TH) break; AtomicRunQ().goto_next(); }
    ASSUME(CURRENT == TH);
    TH->retval = (void*)(uintptr_t)0x5a5a;
    verif_call_die(TH);
    verif_die_switched = 0;
    // the threads that are runnable yield until the joiner runs again
    for (int s = 0; s < 2; s++) { if (CURRENT == ME) break; AtomicRunQ().goto_next(); }
    CHECK(CURRENT == ME && ME->state == states::RUNNING, "the dying thread's notify makes the joiner runnable (no lost wake-up: it is in the run list)");
    ASSUME(CURRENT == ME);
#else
    CHECK(false, "no sleep in this order");
#endif
}
extern "C" NOINL void verif_switch(thread*, thread*) { CHECK(false, "no plain context switch in the join hand-shake"); }

extern "C" void harness_join()
{
    init_vcpus();
    vcpu_t* v = &VCV.v;
    photon::now = nondet_u64();
    photon_thread_dealloc = Delegate<void, void*, size_t>(nullptr, &rec_dealloc);
    init_thread(ME, ORDER == 0 ? states::READY : states::RUNNING, v);
    init_thread(TH, ORDER == 0 ? states::RUNNING : states::READY, v);
    init_thread(BY, states::READY, v);
    new (&TH->cond) condition_variable;
    bool by_present = nondet_bool(), th_first = nondet_bool();
    thread* cur = ORDER == 0 ? TH : ME; thread* oth = ORDER == 0 ? ME : TH;
    if (by_present && th_first) { cur->insert_tail(oth); cur->insert_tail(BY); } else if (by_present) { cur->insert_tail(BY); cur->insert_tail(oth); } else cur->insert_tail(oth);
    CURRENT = cur;
    bool joinable = ORDER == 1 ? true : nondet_bool();
    TH->flags = joinable ? THREAD_JOINABLE : 0;
    TH->buf = STACKBUF; TH->stack_size = nondet_u64();
    size_t ss0 = TH->stack_size;
    uint32_t nv0 = nondet_u8(); ASSUME(nv0 >= 3 && nv0 < 100); v->nthreads = nv0;
    void* rv = nullptr;
    VHEAD = ME;
#if ORDER == 0
    TH->retval = (void*)(uintptr_t)0x5a5a;
    verif_call_die(TH);
    verif_die_switched = 0;
    CHECK(n_die_switch == 1, "die() ends in the final switch");
    CHECK(v->nthreads == nv0 - 1, "the vCPU's thread count drops by one when a thread finishes");
    locate();
    CHECK(where_[2] == IN_NONE, "a finished thread is in no run list");
    CHECK(where_[0] == IN_VRUN && (where_[3] == IN_VRUN) == by_present, "the other threads stay in the run list");
    if (!joinable) {
        CHECK(n_dealloc == 1 && dealloc_buf == STACKBUF && dealloc_size == ss0, "a non-joinable thread's stack is released exactly once after it finished");
        WITNESS("non-joinable thread finished");
    } else {
        CHECK(n_dealloc == 0, "a joinable thread's stack is not released before the join");
        CHECK(!TH->lock.locked(), "the dying thread's lock is released on the next thread's stack");
        for (int s = 0; s < 2; s++) { if (CURRENT == ME) break; AtomicRunQ().goto_next(); }
        ASSUME(CURRENT == ME);
        rv = thread_join((join_handle*)TH);
    }
#else
    rv = thread_join((join_handle*)TH);
    CHECK(n_die_switch == 1, "the join returned after the thread died");
    CHECK(v->nthreads == nv0 - 1, "the vCPU's thread count drops by one when a thread finishes");
#endif
    if (joinable) {
        CHECK(rv == (void*)(uintptr_t)0x5a5a, "thread_join returns the entry function's return value");
        CHECK(n_dealloc == 1 && dealloc_buf == STACKBUF && dealloc_size == ss0, "the joined thread's stack is released exactly once, by the join");
        CHECK(!dealloc_before_done, "the stack is not released before the thread is DONE");
        CHECK(CURRENT == ME && ME->state == states::RUNNING && ME->waitq == nullptr && ME->idx == -1, "the joiner runs on, in no queue");
        locate();
        CHECK(where_[0] == IN_VRUN && where_[2] == IN_NONE && (where_[3] == IN_VRUN) == by_present, "run list = the live threads");
        CHECK(v->sleepq.empty(), "nobody is left in the sleep heap");
        WITNESS("joined");
        if (by_present) WITNESS("joined with a bystander in the run list");
    }
}
#endif
