// One vCPU.  R waits in recv() with a 50 ms deadline.  The deadline expires while the vCPU is busy; a thread T that was made runnable
// before that runs first and calls try_send(): it still sees a waiting receiver, places its value and returns true.  Then R runs.
#include <photon/photon.h>
#include <photon/thread/thread11.h>
#include <photon/thread/go.h>
#include <photon/common/alog.h>
#include <chrono>
#include <cstdio>
using namespace photon;
static void busy_ms(int ms) { auto t = std::chrono::steady_clock::now() + std::chrono::milliseconds(ms); while (std::chrono::steady_clock::now() < t) { } }
int main() {
    setvbuf(stdout, 0, _IONBF, 0);
    set_log_output_level(ALOG_ERROR);
    photon::init(INIT_EVENT_DEFAULT, INIT_IO_NONE);
    channel<int> c(0);
    int rv = -1; bool rok = true, sent = false;
    auto R = thread_enable_join(thread_create11([&] { rok = c.recv(rv, 50000); }));
    thread_usleep(30 * 1000);
    auto T = thread_enable_join(thread_create11([&] { sent = c.try_send(7); }));     // runnable, queued before R's wake-up
    busy_ms(40);                                  // t = 70 ms: R's deadline has passed, nothing has been scheduled yet
    thread_join(T); thread_join(R);
    printf("try_send(7) returned %d; recv returned %d (value %d)\n", (int)sent, (int)rok, rv);
    int late = -1; bool lok = c.try_recv(late);
    printf("a later try_recv finds %s\n", lok ? "the undelivered value still in the slot" : "nothing");
    bool bad = sent && !(rok && rv == 7);
    if (bad) printf("VIOLATION: try_send returned true but the value was not delivered to the receiver that was counted as waiting\n");
    printf(bad ? "FAILED\n" : "PASS\n");
    return bad;
}
