// Two vCPUs.  vCPU1: R2 (receiver, parked), A (send(1) with a 50 ms deadline), HOG (keeps vCPU1 busy for 150 ms once A is parked).
// vCPU2: R (receiver), B (send(2), no deadline), R3 (late receiver).  Expected by C09: a send that returned true was delivered.
#include <photon/photon.h>
#include <photon/thread/thread11.h>
#include <photon/thread/go.h>
#include <photon/common/alog.h>
#include <thread>
#include <atomic>
#include <chrono>
#include <cstdio>
using namespace photon;
static channel<int>* ch;
static std::atomic<int> stage{0};
static std::atomic<int> a_ret{-2}, b_ret{-2}, r_val{-1}, r2_val{-1}, r3_val{-1}, r_ok{-1}, r2_ok{-1}, r3_ok{-1};
static void busy_ms(int ms) { auto t = std::chrono::steady_clock::now() + std::chrono::milliseconds(ms); while (std::chrono::steady_clock::now() < t) { } }
static void wait_stage(int s) { while (stage.load() < s) thread_usleep(1000); }
int main() {
    setvbuf(stdout, 0, _IONBF, 0);
    set_log_output_level(ALOG_ERROR);
    photon::init(INIT_EVENT_DEFAULT, INIT_IO_NONE);
    channel<int> c(0); ch = &c;
    std::thread v2([] {
        photon::init(INIT_EVENT_DEFAULT, INIT_IO_NONE);
        auto R = thread_enable_join(thread_create11([] { int v = -1; bool ok = ch->recv(v, 2000000); r_val = v; r_ok = ok; }));
        stage = 1;                                   // R is (about to be) parked in recv
        thread_usleep(20 * 1000);
        wait_stage(3);                               // A has placed 1 and vCPU1 is hogged; R has taken 1 by now
        thread_join(R);
        auto B = thread_enable_join(thread_create11([] { b_ret = ch->send(2) ? 1 : 0; }));   // places 2 for the parked R2
        thread_usleep(250 * 1000);                   // meanwhile vCPU1 wakes up: A runs after its deadline
        auto R3 = thread_enable_join(thread_create11([] { int v = -1; bool ok = ch->recv(v, 300000); r3_val = v; r3_ok = ok; }));
        thread_join(B); thread_join(R3);
        stage = 5;
        photon::fini();
    });
    wait_stage(1); thread_usleep(30 * 1000);
    auto R2 = thread_enable_join(thread_create11([] { int v = -1; bool ok = ch->recv(v, 1500000); r2_val = v; r2_ok = ok; }));
    thread_usleep(10 * 1000);                        // recv queue: [R, R2]
    auto A = thread_enable_join(thread_create11([] { a_ret = ch->send(1, 50000) ? 1 : 0; }));
    thread_yield();                                  // A places 1 (wakes R on vCPU2) and parks waiting for the acknowledgement
    stage = 3;
    busy_ms(150);                                    // vCPU1 is busy: A and R2 cannot run although they are woken; A's deadline passes
    thread_join(A); wait_stage(5); thread_join(R2);
    v2.join();
    printf("send(1) by A returned %d; send(2) by B returned %d\n", a_ret.load(), b_ret.load());
    printf("R: ok=%d value=%d   R2: ok=%d value=%d   R3: ok=%d value=%d\n", r_ok.load(), r_val.load(), r2_ok.load(), r2_val.load(), r3_ok.load(), r3_val.load());
    bool one_delivered = (r_ok == 1 && r_val == 1) || (r2_ok == 1 && r2_val == 1) || (r3_ok == 1 && r3_val == 1);
    bool two_delivered = (r_ok == 1 && r_val == 2) || (r2_ok == 1 && r2_val == 2) || (r3_ok == 1 && r3_val == 2);
    int bad = 0;
    if (b_ret == 1 && !two_delivered) { printf("VIOLATION: send(2) returned true but 2 was never received\n"); bad = 1; }
    if (a_ret == 1 && !one_delivered) { printf("VIOLATION: send(1) returned true but 1 was never received\n"); bad = 1; }
    if (a_ret == 0 && one_delivered) printf("note: send(1) returned false although 1 was received\n");
    printf(bad ? "FAILED\n" : "PASS\n");
    return bad;
}
