import os, importlib.util
from vlib import Job
_spec = importlib.util.spec_from_file_location('c01jobs', os.path.join(os.path.dirname(__file__), '..', 'C01', 'jobs.py'))
_c01 = importlib.util.module_from_spec(_spec); _spec.loader.exec_module(_c01)
ksjob = _c01.ksjob

META = dict(
    bounds='channel<int>: unbuffered only (the buffered scenarios do not reach a verdict within the memory budget), scenarios 2S+1R, 1S(2 values)+1R, 1S+2R, S+R+close; symbolic timeouts (never / finite), cooperative scheduling with symbolic timeout events, <= 8-10 slices',
    outside='mutex / condition_variable / semaphore internals (contracts here; subject of C01-C03); select(); pre-emption between plain statements of go.h on several vCPUs; more parties or values',
    assumptions=['contract-level sync layer rt/ksync.h (FIFO hand-off mutex, atomic release-and-wait cv, FIFO semaphore)', 'operator new never fails'],
)
SRC = 'C09/h_chan.cpp'
def jobs(tier):
    q = tier == 'quick'
    J = []
    J.append(ksjob('unbuf_1s2v_1r', SRC, 2, 8, ['CAP=0', 'SCEN=1'], desc='unbuffered: 1 sender x 2 values, 1 receiver', stuck_legal=True, timeout=900))
    if not q: J.append(ksjob('unbuf_2s_1r', SRC, 3, 8, ['CAP=0', 'SCEN=0'], desc='unbuffered: 2 senders, 1 receiver', stuck_legal=True, timeout=3000, mem_gb=8))      # 10-20 min with the symbolic clock: thorough tier
    if not q: J.append(ksjob('unbuf_2try_2r', SRC, 4, 8, ['CAP=0', 'SCEN=4', 'TRY'], desc='unbuffered: 2 try_send callers, 2 receivers', stuck_legal=True, timeout=1500, mem_gb=10))
    if os.environ.get('VERIF_EXPERIMENTAL'): J.append(ksjob('unbuf_2s_2r', SRC, 4, 10, ['CAP=0', 'SCEN=4'], desc='unbuffered: 2 senders, 2 receivers', stuck_legal=True, timeout=2400, mem_gb=12))
    if os.environ.get('VERIF_EXPERIMENTAL'): J.append(ksjob('buf1_1s2v_1r', SRC, 2, 8, ['CAP=1', 'SCEN=1'], desc='buffered capacity 1: 1 sender x 2 values, 1 receiver', stuck_legal=True, timeout=1500, mem_gb=16, shims=['memalign.c']))
    # buffered-channel scenarios (buf1_1s2v_1r, buf2_1s2v_2r with CAP=1/2) exist in the harness but run out of memory (8 GB, 16 min): not registered
    return J
