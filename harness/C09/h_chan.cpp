// C09 (go-style channel): a value reported sent is received exactly once, in the sender's order, nothing else is delivered;
// send/recv fail only on close or an expired timeout; a blocked party is released when a partner / slot / item exists.
// Real code: thread/go.h channel<int> (unbuffered_send/recv/try_*, buffered_send/recv/try_*, close) and, for the buffered variant,
// the real FlexLockfreeMPMCRingQueue<int*> under it.  mutex / condition_variable / semaphore are contracts (rt/ksync.h).
#include "verif_h.h"
#include "nolog.h"
#include "ksync.h"
#define private public
#include <photon/thread/go.h>
#undef private
using namespace photon;

#ifndef CAP
#define CAP 0
#endif
typedef channel<int> Chan;
static Raw<Chan> CH;
#if CAP > 0
// typed storage for the ring queue the buffered channel allocates with posix_memalign (a raw byte arena makes every queue
// access a byte-level extract: out of memory); same layout: the queue header followed by its slots
struct QStore { LockfreeMPMCRingQueue<int*, 0> q; LockfreeMPMCRingQueue<int*, 0>::packedslot slots[4]; };
static Raw<QStore> qstore;
extern "C" int verif_memalign(void** out, size_t, size_t size) { CHECK(size <= sizeof(QStore), "queue fits its typed storage"); *out = &qstore.v; return 0; }
#endif
#define NSEND 2
static uint8_t sent_ok[KN][NSEND];    // 1: send returned true, 2: returned false
static uint8_t got[KN][NSEND];        // times the value was received
static int next_from[KN][KN];         // per receiver: next expected sequence number of each sender
static int recv_fail[KN], recv_err[KN];
static uint8_t role[KN];              // 1 = sender, 2 = receiver (set when the thread starts its operation)
#define VAL(s, k) (100 + (s) * 10 + (k))

static inline Timeout sym_timeout() { return nondet_bool() ? Timeout() : Timeout(100); }

static inline void account(int me, int v)
{
    bool known = false;
    for (int s = 0; s < KN; s++) for (int k = 0; k < NSEND; k++) if (v == VAL(s, k)) {
        known = true;
        CHECK(sent_ok[s][k] != 2, "a received value was not reported as failed by its sender");
        got[s][k]++;
        CHECK(got[s][k] == 1, "a value is delivered to at most one receiver");
        CHECK(k >= next_from[me][s], "values of one sender arrive in its sending order");
        next_from[me][s] = k + 1;
    }
    CHECK(known, "no value is delivered that was not sent");
}
template<int ME_> static inline __attribute__((always_inline)) void sender(int n)
{
    role[ME_] = 1;
    for (int k = 0; k < NSEND; k++) {
        if (k >= n) break;
        Timeout t = sym_timeout();
#ifdef TRY
        bool ok = CH.v.try_send(VAL(ME_, k));
#else
        bool ok = CH.v.send(VAL(ME_, k), t);
#endif
        sent_ok[ME_][k] = ok ? 1 : 2;
    }
}
template<int ME_> static inline __attribute__((always_inline)) void receiver(int n)
{
    role[ME_] = 2;
    for (int k = 0; k < 2; k++) {
        if (k >= n) break;
        int v = -1; Timeout t = sym_timeout();
        bool ok = CH.v.recv(v, t);
        if (ok) account(ME_, v); else { recv_fail[ME_]++; recv_err[ME_] = errno; }
    }
}
extern "C" {
#if SCEN == 0      // 2 senders (1 value each) + 1 receiver (2 receives)
void thread_entry_0() { sender<0>(1); }
void thread_entry_1() { sender<1>(1); }
void thread_entry_2() { receiver<2>(2); }
#elif SCEN == 1    // 1 sender (2 values) + 1 receiver (2 receives)
void thread_entry_0() { sender<0>(2); }
void thread_entry_1() { receiver<1>(2); }
#elif SCEN == 2    // 1 sender (1 value) + 2 receivers (1 receive each)
void thread_entry_0() { sender<0>(1); }
void thread_entry_1() { receiver<1>(1); }
void thread_entry_2() { receiver<2>(1); }
#elif SCEN == 4    // 2 senders + 2 receivers
void thread_entry_0() { sender<0>(1); }
void thread_entry_1() { sender<1>(1); }
void thread_entry_2() { receiver<2>(1); }
void thread_entry_3() { receiver<3>(1); }
#elif SCEN == 5    // 1 sender (2 values) + 2 receivers (1 receive each)
void thread_entry_0() { sender<0>(2); }
void thread_entry_1() { receiver<1>(1); }
void thread_entry_2() { receiver<2>(1); }
#elif SCEN == 3    // sender + receiver + closer
void thread_entry_0() { sender<0>(1); }
void thread_entry_1() { receiver<1>(1); }
void thread_entry_2() { CH.v.close(); }
#endif
NOINL void world_init() { new (&CH.v) Chan(CAP); }
NOINL void world_final(uint32_t all_done, uint32_t stuck)
{
    if (all_done) {
        // whatever is still buffered counts as "in the channel" (it would be deleted with the channel)
        int buffered = 0;
#if CAP > 0
        for (int k = 0; k < CAP + 1; k++) { int* pv = nullptr; if (CH.v.m_queue->pop(pv)) { got[(*pv - 100) / 10][(*pv - 100) % 10]++; buffered++; } }
#endif
        for (int s = 0; s < KN; s++) for (int k = 0; k < NSEND; k++) {
            if (sent_ok[s][k] == 1) CHECK(got[s][k] == 1, "every value whose send returned true is delivered exactly once");
            if (sent_ok[s][k] == 2) CHECK(got[s][k] == 0, "a value whose send failed is never delivered");
        }
        if (sent_ok[0][0] == 1) WITNESS("a send succeeded and everybody finished");
        if (sent_ok[0][0] == 2) WITNESS("a send failed (timeout or close)");
        if (buffered) WITNESS("a value was still buffered at the end");
    }
    if (stuck) {
        // nobody can run and no deadline can expire: legitimate only if no matching partner / item / slot exists for a blocked party
        bool sblk = false, rblk = false;
        for (int i = 0; i < KN; i++) if (K_is_blocked(i)) { if (role[i] == 1) sblk = true; if (role[i] == 2) rblk = true; }
        bool closed = CH.v.is_closed();
#if CAP == 0
        CHECK(closed || !(sblk && rblk), "a blocked sender and a blocked receiver never coexist for ever: each is released when its partner exists");
#else
        CHECK(closed || !(rblk && CH.v.size() > 0), "no receiver stays blocked while an item is buffered");
        CHECK(closed || !(sblk && CH.v.size() < CAP), "no sender stays blocked while a slot is free");
#endif
        // nobody will ever run again: whatever was reported sent must already have been received
        for (int s = 0; s < KN; s++) for (int k = 0; k < NSEND; k++)
            if (sent_ok[s][k] == 1 && CH.v.size() == 0) CHECK(got[s][k] == 1, "stuck end state: a value whose send returned true has been received");
        WITNESS("a party can stay blocked when no partner ever arrives");
    }
}
}
