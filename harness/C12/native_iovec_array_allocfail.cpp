// iovec_array with summed_size == SIZE_MAX is accepted (as an empty array) when the iovector's allocator fails:
// iovector::extract_front(bytes, iovector_view*) returns -1 on allocation failure and DeserializerIOV compares
// `ret == (ssize_t)x.summed_size`, which is true for summed_size == 2^64-1.
#include <photon/rpc/serialize.h>
#include <cstdio>
#include <cstdlib>
#include <cstring>
using namespace photon::rpc;
struct M4 : public Message { fixed_buffer<uint32_t> fx; iovec_array v; PROCESS_FIELDS(fx, v); };
static int fail_alloc(void*, IOAlloc::RangeSize, void**) { return -1; }
static int no_dealloc(void*, void*) { return 0; }
int main()
{
    char* msg = (char*)malloc(4 + sizeof(M4));
    M4 body; body.fx._ptr = nullptr; body.fx._len = 0; body.v._ptr = nullptr; body.v._len = 0; body.v.summed_size = SIZE_MAX;
    memset(msg, 'x', 4); memcpy(msg + 4, &body, sizeof(M4));
    IOVector iov(IOAlloc(IOAlloc::Allocator(nullptr, &fail_alloc), IOAlloc::Deallocator(nullptr, &no_dealloc)));
    iov.push_back(msg, 4 + sizeof(M4));
    DeserializerIOV des; M4* t = des.deserialize<M4>(&iov);
    printf("accepted=%d", t != nullptr); if (t) printf(" elements=%zu summed_size=%zu", t->v.size(), t->v.summed_size); printf("\n");
    return 0;
}
