// C12: RPC serialization - lossless round trip under every fragmentation; hostile bytes never lead outside the input.
// Real code: rpc/serialize.h (SerializerIOV::serialize, DeserializerIOV::deserialize, ArchiveBase::process_field*,
// _FilterAlignedFields, CheckedMessage::add/validate_checksum, Crc32Hasher, iovec_array, sorted_map begin/end/find/Iterator,
// slice::anchor, base_buffer_cmp), common/iovector.h (iovector / IOVectorEntity: push_back, extract_back<T>,
// extract_front_continuous incl. the copying path, extract_front(bytes, view*), do_malloc, IOVAllocation_),
// common/iovector.cpp (included textually: do_extract_front/back, sum, ...).
//
// Byte stream given to deserialize = PAY[0..PLEN) (the variable-length payload) followed by the sizeof(MT) body bytes.  It is cut
// at symbolic points into NPF+1 pieces (NPF = 0..2 elements in front of the last one; a piece may be empty = zero-length element).
// Every piece is stored END-ALIGNED in its own static object, so reading one byte past a piece is an out-of-bounds access:
//   FRAG 0 ("body contiguous"): all cuts inside the payload; the last piece is the typed object LAST {pre[]; MT body} and
//                               consists of the tail of the payload followed by the body.
//   FRAG 1 ("body straddles"):  the last cut is strictly inside the body, so the body is reassembled by the copying path of
//                               extract_back_continuous into a block obtained from the allocator.
// The iovector's allocator is a pair of harness callbacks handing out exact-size (end-aligned) blocks from static pools; a
// block of sizeof(MT) bytes is the typed object BODYBLK.  With ALLOCFAIL the allocator may fail symbolically.
// Entry points: harness_roundtrip / harness_hostile (one message shape per compilation, -DMSG=k), harness_sortedmap (MSG 5).
// Oracles: round trip = field-wise equality with the original; hostile = accepted iff every length fits the remaining payload
// (and the checksum matches), every accepted field denotes exactly its bytes of the stream (every byte is read); checked
// messages = which bytes are hashed, in which order, and accept iff stored == final hash value.
// native_*.cpp in this directory are the ASan / native confirmations of the findings (not part of the solver run).
#include "verif_h.h"
#include "nolog.h"
#include <stdlib.h>
#include "common/iovector.cpp"
#define private public
#include <photon/rpc/serialize.h>
#undef private
using namespace photon::rpc;

#ifndef PMAX
#define PMAX 4          // max payload bytes
#endif
#ifndef FMAX
#define FMAX 2          // max bytes / elements of one variable-length field in the round trip
#endif
#ifndef MSG
#define MSG 1
#endif
#ifndef FRAG
#define FRAG 0
#endif
#ifndef ALLOCFAIL
#define ALLOCFAIL 0
#endif
#define PRE ((PMAX + 7) / 8 * 8)
// every harness loop has a constant bound and is fully unrolled by the compiler: no loop of the harness reaches the solver
#define UNROLL _Pragma("clang loop unroll(full)")
#ifndef NPF
#define NPF 2       // number of elements in front of the last one
#endif
#ifndef INCAP
#define INCAP (NPF + 1)
#endif

// ---------------------------------------------------------------- message shapes (declared with the library's macro)
// NV variable-length fields in wire order (aligned fields first); GR = granule (bytes per element), CM = max elements (round trip)
struct M1 : public Message { int32_t a; buffer b; string s; PROCESS_FIELDS(a, b, s); };
struct Inner : public Message { uint32_t tag; buffer ib; PROCESS_FIELDS(tag, ib); };
struct M2 : public Message { Inner in; array<uint16_t> arr; aligned_buffer ab; PROCESS_FIELDS(in, arr, ab); };
struct M3 : public CheckedMessage<> { uint32_t x; string s; PROCESS_FIELDS(x, s); };
struct M4 : public Message { fixed_buffer<uint32_t> fx; iovec_array v; PROCESS_FIELDS(fx, v); };
struct V5 : public Message { uint64_t val; PROCESS_FIELDS(val); };
struct M5 : public Message { sorted_map<string, V5> sm; PROCESS_FIELDS(sm); };
struct M6 : public Message { buffer b; PROCESS_FIELDS(b); };

#if MSG == 1
typedef M1 MT;
#define NV 2
static inline void var_fields(MT* t, buffer** f) { f[0] = &t->b; f[1] = &t->s; }
static const uint8_t GR[NV] = {1, 1}, CM[NV] = {FMAX, FMAX};
static inline void set_fixed(MT* t) { t->a = nondet_u32(); }
static inline bool fixed_eq(const MT* x, const MT* y) { return x->a == y->a; }
#elif MSG == 2
typedef M2 MT;
#define NV 3
static inline void var_fields(MT* t, buffer** f) { f[0] = &t->ab; f[1] = &t->in.ib; f[2] = &t->arr; }
static const uint8_t GR[NV] = {1, 1, 2}, CM[NV] = {FMAX, FMAX, FMAX};
static inline void set_fixed(MT* t) { t->in.tag = nondet_u32(); }
static inline bool fixed_eq(const MT* x, const MT* y) { return x->in.tag == y->in.tag; }
#elif MSG == 3
typedef M3 MT;
#define NV 1
#define CHECKED 1
static inline void var_fields(MT* t, buffer** f) { f[0] = &t->s; }
static const uint8_t GR[NV] = {1}, CM[NV] = {FMAX};
static inline void set_fixed(MT* t) { t->x = nondet_u32(); }
static inline bool fixed_eq(const MT* x, const MT* y) { return x->x == y->x; }
#elif MSG == 4
typedef M4 MT;
#elif MSG == 5
typedef M5 MT;
#elif MSG == 6
typedef M6 MT;
#define NV 1
static inline void var_fields(MT* t, buffer** f) { f[0] = &t->b; }
static const uint8_t GR[NV] = {1}, CM[NV] = {FMAX};
static inline void set_fixed(MT* t) { }
static inline bool fixed_eq(const MT* x, const MT* y) { return true; }
#endif
#ifndef CHECKED
#define CHECKED 0
#endif
#define SZ (sizeof(MT))

// ---------------------------------------------------------------- checksum function
// crc32c_extend() calls through the global pointer crc32c_auto (set by a static constructor in common/checksum/crc.cpp).
// The harness binds it to a recording fold: every call must continue from the previous result (chaining), the bytes it is given
// are appended to LOG, and the running value is kept in `crc_cur`.  The oracle then is: (a) LOG == payload || body' (the bytes
// that are hashed, in order, whatever the fragmentation), (b) the decision of validate_checksum is `stored == crc_cur`.
// FOLD is a byte-sequential stand-in (so extend(extend(c, a), b) == extend(c, a||b) like any CRC), not the CRC32C polynomial,
// unless CRC_REAL binds the repo's table implementation.
#define LOGMAX (PMAX + SZ)
static uint8_t LOG[LOGMAX + 1]; static size_t loglen; static uint32_t crc_cur, crc_at_body; static bool chain_ok = true, body_seen;
static size_t PLEN;                     // payload length
#ifdef CRC_REAL
#include "crc_real.h"
#else
static inline uint32_t fold(uint32_t c, uint8_t b) { return ((c << 8) | (c >> 24)) ^ b ^ 0x5a; }
#endif
static uint32_t crc_rec(const uint8_t* d, size_t n, uint32_t c)
{
    if (c != crc_cur) chain_ok = false;
    if (loglen == PLEN) { crc_at_body = c; body_seen = true; }      // the call that starts at stream position PLEN hashes the body
    if (n == SZ) {          // the body: constant length
        UNROLL for (size_t i = 0; i < SZ; i++) { LOG[loglen < LOGMAX ? loglen : LOGMAX] = d[i]; loglen++; c = fold(c, d[i]); }
    } else {                // a piece of the payload
        if (n > PMAX) chain_ok = false;
        for (size_t i = 0; i < PMAX; i++) { if (i >= n) break; LOG[loglen < LOGMAX ? loglen : LOGMAX] = d[i]; loglen++; c = fold(c, d[i]); }
    }
    crc_cur = c;
    return c;
}
uint32_t (*crc32c_auto)(const uint8_t*, size_t, uint32_t) = &crc_rec;
static void crc_reset() { loglen = 0; crc_cur = 0; crc_at_body = 0; chain_ok = true; body_seen = false; }

// ---------------------------------------------------------------- input construction
static uint8_t PAY[PMAX + 1];           // payload bytes of the stream (model)
#if FRAG == 0
#define FB PMAX
static uint8_t F0[FB], F1[FB];
static struct { uint8_t pre[PRE]; Raw<MT> body; } LAST;
#else
#define FB (PMAX + SZ - 1)
static uint8_t BB[SZ];                  // body bytes
static uint8_t F0[FB], F1[FB], F2[SZ - 1];
#endif
// the input vector: the library's IOVectorEntity with a small capacity (IOVector is IOVectorEntity<32,4>: same code, larger arrays)
typedef IOVectorEntity<INCAP, 0> InVec;
static Raw<InVec> INs;

// allocator pools
#define PBS (PMAX)
static uint8_t PB0[PBS], PB1[PBS], PB2[PBS];
static Raw<MT> BODYBLK;
static iovec IVP[3];
static bool body_used, alloc_failed; static int pool_next, n_alloc, n_dealloc;

static int alloc_cb(void*, IOAlloc::RangeSize sz, void** out)
{
    n_alloc++;
    CHECK(sz.min >= 0 && sz.max >= sz.min, "the allocator is asked for a non-negative, ordered size range");
#if ALLOCFAIL
    if (nondet_bool()) { alloc_failed = true; return -1; }
#endif
    int n = sz.max;
    if (n == (int)SZ && !body_used) { body_used = true; *out = &BODYBLK; return n; }
#ifdef IOVEC_POOL
    if (n % 16 == 0 && n <= 48) { *out = IVP + (3 - n / 16); return n; }
#endif
    CHECK(n <= PBS, "no allocation larger than the payload");
    CHECK(pool_next < 3, "harness pool is large enough");
    if (n > PBS || pool_next >= 3) { alloc_failed = true; return -1; }
    int k = pool_next++;
    uint8_t* b = k == 0 ? PB0 : k == 1 ? PB1 : PB2;
    *out = b + (PBS - n);
    return n;
}
static int dealloc_cb(void*, void*) { n_dealloc++; return 0; }

static inline uint8_t pay(size_t i) { return PAY[i < PMAX ? i : PMAX]; }
#if FRAG == 1
static inline uint8_t stream(size_t i) { return i < PLEN ? pay(i) : BB[(i - PLEN) < SZ ? (i - PLEN) : 0]; }
#endif

// word-wise copy of the fixed body (with the solver's built-in constant-size memcpy model a struct holding pointers came out
// garbled: spurious counterexample, not reproducible natively)
static inline void copy_body(void* d, const void* s) { UNROLL for (size_t i = 0; i < SZ / 8; i++) ((uint64_t*)d)[i] = ((const uint64_t*)s)[i]; static_assert(SZ % 8 == 0, "body is a multiple of 8 bytes"); }
static iovector* build_input(const void* body)
{
    InVec& in = *new (&INs.v) InVec(IOAlloc(IOAlloc::Allocator(nullptr, &alloc_cb), IOAlloc::Deallocator(nullptr, &dealloc_cb)));
    const size_t P = PLEN;
    uint8_t c1 = nondet_u8(), c2 = nondet_u8();
#if NPF < 2
    c1 = 0;
#endif
#if FRAG == 0
#if NPF < 1
    c2 = 0;
#endif
    ASSUME(c1 <= c2 && c2 <= P);
    size_t l0 = c1, l1 = c2 - c1, q = P - c2;
    if (NPF >= 2) UNROLL for (size_t d = 0; d < FB; d++) F0[d] = d >= FB - l0 ? pay(d - (FB - l0)) : 0;
    if (NPF >= 1) UNROLL for (size_t d = 0; d < FB; d++) F1[d] = d >= FB - l1 ? pay(c1 + d - (FB - l1)) : 0;
    UNROLL for (size_t d = 0; d < PMAX; d++) LAST.pre[PRE - PMAX + d] = d >= PMAX - q ? pay(c2 + d - (PMAX - q)) : 0;
    copy_body(&LAST.body, body);
    if (NPF >= 2) in.push_back(F0 + (FB - l0), l0);
    if (NPF >= 1) in.push_back(F1 + (FB - l1), l1);
    in.push_back(LAST.pre + (PRE - q), q + SZ);
#if NPF > 0
    if (q > 0 && q < P) WITNESS("payload tail shares the last element with the body");
#endif
#else
    UNROLL for (size_t i = 0; i < SZ; i++) BB[i] = ((const uint8_t*)body)[i];
    const size_t L = P + SZ;
    ASSUME(c1 <= c2 && c2 > P && c2 < L);
    size_t l0 = c1, l1 = c2 - c1, l2 = L - c2;
    UNROLL for (size_t d = 0; d < FB; d++) F0[d] = d >= FB - l0 ? stream(d - (FB - l0)) : 0;
    UNROLL for (size_t d = 0; d < FB; d++) F1[d] = d >= FB - l1 ? stream(c1 + d - (FB - l1)) : 0;
    UNROLL for (size_t d = 0; d < SZ - 1; d++) F2[d] = d >= (SZ - 1) - l2 ? stream(c2 + d - ((SZ - 1) - l2)) : 0;
    if (NPF >= 2) in.push_back(F0 + (FB - l0), l0);
    if (NPF >= 1) in.push_back(F1 + (FB - l1), l1);
    in.push_back(F2 + ((SZ - 1) - l2), l2);
    if (l2 > 1 && l2 < SZ - 1) WITNESS("body cut in the middle");
#endif
#if NPF > 0
    if ((NPF < 2 || l0 > 0) && (NPF < 1 || l1 > 0)) WITNESS("every piece non-empty");
#endif
#if NPF >= 1 && FRAG == 0
    if (l1 == 0) WITNESS("zero-length element in the input");
#endif
    return &in;
}

// the bytes [off, off+len) of the payload are what the field at (ptr, len) denotes; reads every byte of the field
static void check_field(const void* ptr, size_t len, size_t off, bool* ok)
{
    UNROLL for (size_t k = 0; k < PMAX; k++) {
        if (k >= len) break;
        if (((const uint8_t*)ptr)[k] != pay(off + k)) *ok = false;
    }
}

static Raw<MT> ORIG, HOST;
uint32_t accessor_sink;
static Raw<SerializerIOV> SER;

// serialize ORIG with the real serializer and observe the stream: payload = all elements but the last (copied to PAY),
// body = last element (returned)
#define MAXEL 6
static const void* serialize_and_observe(MT& m, size_t expect_payload)
{
    SerializerIOV& ser = *new (&SER.v) SerializerIOV;
    PLEN = expect_payload;      // (the checksum recorder wants to know where the body starts)
    ser.serialize(m);
    CHECK(!ser.iovfull, "serializer did not run out of iovec slots");
    int cnt = ser.iov.iovcnt();
    CHECK(cnt >= 1 && cnt <= MAXEL, "element count of the serialized message");
    // (values are handed on through fresh symbolic bytes constrained to be equal: keeps the solver's expressions for the second
    // half of the run independent of how the bytes were fetched)
    static uint8_t TMP[PMAX + 1];
    size_t n = 0;
    UNROLL for (int e = 0; e < MAXEL - 1; e++) {
        if (e >= cnt - 1) break;
        iovec v = ser.iov[e];
        CHECK(v.iov_len <= PMAX, "payload element length");
        UNROLL for (size_t k = 0; k < PMAX; k++) { if (k >= v.iov_len) break; TMP[n < PMAX ? n : PMAX] = ((uint8_t*)v.iov_base)[k]; n++; }
    }
    CHECK(n == expect_payload, "serialized size is the body plus the field lengths");
    uint8_t pl = nondet_u8(); ASSUME(pl == n); PLEN = pl;
    UNROLL for (int i = 0; i < PMAX; i++) { uint8_t x = nondet_u8(); ASSUME(x == TMP[i]); PAY[i] = x; }
    iovec last = ser.iov[cnt - 1];
    CHECK(last.iov_len == SZ, "the last element of the serialized message is the fixed body");
    CHECK(last.iov_base == (void*)&m, "the body is serialized in place");
    return &m;
}

#if CHECKED
// the bytes that were hashed are the stream payload || body', where body' is the body whose checksum field holds the running
// value H(payload): CheckedMessage hashes through a reference to its own m_checksum, so that is what the field contains while
// the body is hashed - on the sending side (add_checksum) and on the receiving side (validate_checksum) alike.
static bool log_is_stream(const MT* body)
{
    static Raw<MT> Z;
    copy_body(&Z.v, body); Z.v.m_checksum = crc_at_body;
    bool ok = chain_ok && body_seen && loglen == PLEN + SZ;
    UNROLL for (size_t i = 0; i < PMAX; i++) { if (i >= PLEN) break; if (LOG[i] != pay(i)) ok = false; }
    UNROLL for (size_t j = 0; j < SZ; j++) if (LOG[PLEN + j < LOGMAX ? PLEN + j : LOGMAX] != ((const uint8_t*)&Z.v)[j]) ok = false;
    return ok;
}
#endif

// ---------------------------------------------------------------- generic harnesses for messages made of buffer-like fields
#ifdef NV
#define SRCMAX (2 * FMAX + 1)
static uint8_t SRC[NV][SRCMAX];
extern "C" {
void harness_roundtrip()
{
    MT& m = *new (&ORIG.v) MT;
    set_fixed(&m);
    buffer* mf[NV]; var_fields(&m, mf);
    size_t len[NV], total = 0;
    UNROLL for (int i = 0; i < NV; i++) {
        uint8_t c = nondet_u8(); ASSUME(c <= CM[i]);
        len[i] = (size_t)c * GR[i]; total += len[i];
        UNROLL for (int k = 0; k < SRCMAX - 1; k++) SRC[i][k] = nondet_u8();
        mf[i]->assign(SRC[i], len[i]);
    }
    ASSUME(total <= PMAX);
    const void* body = serialize_and_observe(m, total);
#if CHECKED
    uint32_t stored = ((const MT*)body)->m_checksum;
    CHECK(stored == crc_cur, "add_checksum stores the final value of the hash");
    CHECK(log_is_stream((const MT*)body), "add_checksum hashes exactly payload || body, in stream order");
    crc_reset();
#ifdef ALTER
    // alter one byte of the payload (symbolic position, symbolic non-zero xor mask)
    uint8_t pos = nondet_u8(), mask = nondet_u8(); ASSUME(pos < PLEN && mask != 0);
    PAY[pos] ^= mask;
#endif
#endif
    iovector* in = build_input(body);
    DeserializerIOV des;
    MT* t = des.deserialize<MT>(in);
#if CHECKED
    CHECK(log_is_stream((const MT*)body) || (alloc_failed && loglen == 0), "validate_checksum hashes exactly payload || body, in stream order, whatever the fragmentation");
#ifdef ALTER
    CHECK((t != nullptr) == (stored == crc_cur), "an altered message is accepted only if the checksum of the altered bytes equals the stored one");
    CHECK(t == nullptr, "a checked message with one altered payload byte is rejected (the fold, like CRC32C, detects every single-byte change)");
    if (!t) WITNESS("altered message rejected");
    return;
#endif
#endif
    CHECK(t != nullptr || alloc_failed, "deserialize accepts what serialize produced");
    if (t) {
        CHECK(fixed_eq(t, &m), "fixed field survives the round trip");
        buffer* tf[NV]; var_fields(t, tf);
        bool ok = true, lens = true;
        UNROLL for (int i = 0; i < NV; i++) {
            if (tf[i]->size() != len[i]) lens = false;
            UNROLL for (size_t k = 0; k < SRCMAX - 1; k++) { if (k >= len[i]) break; if (((uint8_t*)tf[i]->addr())[k] != SRC[i][k]) ok = false; }
        }
        CHECK(lens, "field lengths survive the round trip");
        CHECK(ok, "field contents survive the round trip");
        if (len[0] == (size_t)CM[0] * GR[0] && len[NV - 1] > 0) WITNESS("round trip with a full-length field");
        if (len[0] == 0) WITNESS("round trip with an empty field");
#if NPF > 0 || FRAG == 1
        if (n_alloc > 0) WITNESS("round trip through the copying path");
#endif
    }
#if ALLOCFAIL
    else WITNESS("allocation failure makes deserialize fail");
#endif
}

void harness_hostile()
{
    MT& h = *new (&HOST.v) MT;
    UNROLL for (size_t i = 0; i < SZ / 8; i++) ((uint64_t*)&h)[i] = nondet_u64();       // every byte of the body is arbitrary
    uint8_t p = nondet_u8(); ASSUME(p <= PMAX); PLEN = p;
    UNROLL for (int i = 0; i < PMAX; i++) PAY[i] = nondet_u8();
    buffer* hf[NV]; var_fields(&h, hf);
    size_t len[NV], off[NV], o = 0; bool fits = true;
    UNROLL for (int i = 0; i < NV; i++) {       // model: each non-empty field claims the next len bytes of the payload, in wire order
        len[i] = hf[i]->_len; off[i] = o;
        if (fits && len[i] > PLEN - o) fits = false;
        if (fits) o += len[i];
    }
    iovector* in = build_input(&h);
    DeserializerIOV des;
    MT* t = des.deserialize<MT>(in);
#if CHECKED
    CHECK(log_is_stream(&h) || (alloc_failed && loglen == 0), "validate_checksum hashes exactly payload || body, in stream order, whatever the fragmentation");
    bool sum_ok = h.m_checksum == crc_cur;
#else
    bool sum_ok = true;
#endif
    if (t) {
        CHECK(fits, "an accepted message has field lengths that fit the supplied bytes");
        CHECK(sum_ok, "an accepted checked message carries the checksum of its bytes");
        CHECK(fixed_eq(t, &h), "fixed part of an accepted message is the supplied body");
        buffer* tf[NV]; var_fields(t, tf);
        bool ok = true, lens = true;
        UNROLL for (int i = 0; i < NV; i++) {
            if (tf[i]->size() != len[i]) lens = false;
            if (fits) check_field(tf[i]->addr(), len[i], off[i], &ok);
        }
        CHECK(lens, "field lengths of an accepted message are the supplied ones");
        CHECK(ok, "every field of an accepted message denotes its bytes of the supplied stream");
        if (len[0] > 0 && len[NV - 1] > 0) WITNESS("hostile: accepted with non-empty fields");
        if (o < PLEN) WITNESS("hostile: accepted with unclaimed trailing payload");
#if defined(ACCESSORS) && MSG == 1
        // the library's accessor for the characters of a string
        CHECK(t->s.sv().size() <= t->s.size(), "string::sv() of an accepted message lies inside the field");
        if (t->s.size() == 0) WITNESS("string of length 0 accepted");
#endif
#if NPF > 0 || FRAG == 1
        if (n_alloc > 0) WITNESS("hostile: accepted through the copying path");
#endif
    } else {
        CHECK(!fits || !sum_ok || alloc_failed, "a message whose fields fit (and whose checksum matches) is accepted");
        if (!fits && sum_ok) WITNESS("hostile: length beyond the remaining input rejected");
        if (CHECKED && fits && !sum_ok) WITNESS("hostile: checksum mismatch rejected");
#if ALLOCFAIL
        if (alloc_failed && fits && sum_ok) WITNESS("hostile: allocation failure rejected");
#endif
    }
}
}
#endif

// ---------------------------------------------------------------- M4 {fixed_buffer<uint32_t>; iovec_array}
#if MSG == 4
static uint32_t SRCFX; static uint8_t SRCV[2][FMAX + 1]; static iovec ORIGIOV[2];
// reads every byte of every element of a deserialized iovec_array and compares it with the stream bytes starting at `off`
static void check_iovs(const iovec_array& v, size_t off, size_t expect_total, bool* ok)
{
    size_t cnt = v.size(), pos = 0;
    CHECK(cnt <= NPF + 1, "a deserialized iovec_array has at most as many elements as the input had");
    UNROLL for (size_t e = 0; e < NPF + 1; e++) {
        if (e >= cnt) break;
        iovec x = v[e];
        if (x.iov_len > PMAX) { *ok = false; break; }
        UNROLL for (size_t k = 0; k < PMAX; k++) { if (k >= x.iov_len) break; if (((uint8_t*)x.iov_base)[k] != pay(off + pos)) *ok = false; pos++; }
    }
    if (pos != expect_total) *ok = false;
}
extern "C" {
void harness_roundtrip()
{
    MT& m = *new (&ORIG.v) MT;
    bool hasfx = nondet_bool(); SRCFX = nondet_u32();
    if (hasfx) m.fx.assign(&SRCFX);
    uint8_t cnt = nondet_u8(); ASSUME(cnt <= 2);
    size_t vl[2], vtot = 0;
    UNROLL for (int i = 0; i < 2; i++) {
        uint8_t l = nondet_u8(); ASSUME(l <= FMAX); vl[i] = i < cnt ? l : 0; vtot += vl[i];
        UNROLL for (int k = 0; k < FMAX; k++) SRCV[i][k] = nondet_u8();
        ORIGIOV[i].iov_base = SRCV[i]; ORIGIOV[i].iov_len = vl[i];
    }
    size_t s0 = m.v.assign(ORIGIOV, cnt);
    CHECK(s0 == vtot && m.v.summed_size == vtot, "iovec_array::assign sums the element lengths");
    size_t fxl = hasfx ? 4 : 0;
    ASSUME(fxl + vtot <= PMAX);
    const void* body = serialize_and_observe(m, fxl + vtot);
    CHECK(m.v.summed_size == vtot, "serialize records the summed size");
    iovector* in = build_input(body);
    DeserializerIOV des;
    MT* t = des.deserialize<MT>(in);
    CHECK(t != nullptr || alloc_failed, "deserialize accepts what serialize produced");
    if (t) {
        CHECK(t->fx.size() == fxl && t->v.summed_size == vtot, "field lengths survive the round trip");
        bool ok = true;
        if (hasfx) { uint32_t got; memcpy(&got, t->fx.get(), 4); if (got != SRCFX) ok = false; }
        // the iovec_array comes back as pieces of the input: same bytes, possibly cut differently
        check_iovs(t->v, fxl, vtot, &ok);
        UNROLL for (size_t i = 0; i < 2 * FMAX; i++) { if (i >= vtot) break; uint8_t want = i < vl[0] ? SRCV[0][i < FMAX ? i : 0] : SRCV[1][(i - vl[0]) < FMAX ? (i - vl[0]) : 0]; if (pay(fxl + i) != want) ok = false; }
        CHECK(ok, "field contents survive the round trip");
        if (hasfx && cnt == 2 && vl[0] > 0 && vl[1] > 0) WITNESS("round trip with a fixed buffer and two iovecs");
        if (cnt == 0) WITNESS("round trip with an empty iovec_array");
#if NPF > 0
        if (t->v.size() > cnt) WITNESS("iovec_array comes back in more pieces than it was sent");
#endif
    }
#if ALLOCFAIL
    else WITNESS("allocation failure makes deserialize fail");
#endif
}

void harness_hostile()
{
    MT& h = *new (&HOST.v) MT;
    UNROLL for (size_t i = 0; i < SZ / 8; i++) ((uint64_t*)&h)[i] = nondet_u64();
    uint8_t p = nondet_u8(); ASSUME(p <= PMAX); PLEN = p;
    UNROLL for (int i = 0; i < PMAX; i++) PAY[i] = nondet_u8();
    size_t fxl = h.fx._len, vs = h.v.summed_size;
#ifdef NO_SIZE_MAX
    ASSUME(vs != SIZE_MAX);
#endif
    bool fits = fxl <= PLEN && vs <= PLEN - fxl;
    iovector* in = build_input(&h);
    DeserializerIOV des;
    MT* t = des.deserialize<MT>(in);
    if (t) {
        CHECK(fits, "an accepted message has field lengths that fit the supplied bytes");
        CHECK(t->fx.size() == fxl && t->v.summed_size == vs, "field lengths of an accepted message are the supplied ones");
        bool ok = true;
        if (fits) { check_field(t->fx.addr(), fxl, 0, &ok); check_iovs(t->v, fxl, vs, &ok); }
        CHECK(ok, "every field of an accepted message denotes its bytes of the supplied stream");
#if NPF > 0
        if (fxl > 0 && t->v.size() == 2) WITNESS("hostile: accepted with a buffer and a two-element iovec_array");
#endif
        if (vs == 0) WITNESS("hostile: accepted with an empty iovec_array");
#ifdef ACCESSORS
        // the library's accessor for a fixed_buffer<T> promises a T
        // (after the repair in /repo: get() yields a T only when the field holds exactly one T, nullptr otherwise)
        { const uint32_t* g = t->fx.get();
          if (g) { CHECK(fxl == sizeof(uint32_t), "fixed_buffer<T>::get() hands out a T only for a field of sizeof(T) bytes"); accessor_sink = *(const volatile uint32_t*)g; } }
        if (fxl == 0) WITNESS("fixed_buffer of length 0 accepted");
#endif
    } else {
        CHECK(!fits || alloc_failed, "a message whose fields fit is accepted");
        if (fxl <= PLEN && vs > PLEN - fxl) WITNESS("hostile: summed size beyond the remaining input rejected");
    }
}
}
#endif

// ---------------------------------------------------------------- M5 {sorted_map<string, V5>}: one index entry + base buffer
#if MSG == 5
#ifndef BLEN
#define BLEN 8          // bytes of the map's base buffer
#endif
#define ILEN 32         // one index entry: pair<slice, slice> = {key offset, key length, value offset, value length}
static inline uint64_t pay64(size_t o) { uint64_t v = 0; UNROLL for (int i = 0; i < 8; i++) v |= (uint64_t)pay(o + i) << (8 * i); return v; }
extern "C" {
// SM_MODE 0: hostile index entry (arbitrary 64-bit offsets and lengths) - the library's own accessors must stay inside the input
// SM_MODE 1: index entry whose two slices lie inside the base buffer - accessors return the denoted bytes
// SM_MODE 2: round trip of a one-entry map built the way sorted_map_factory lays it out (key bytes, then the serialized value)
void harness_sortedmap()
{
    static_assert(PMAX == ILEN + BLEN, "payload is one index entry plus the base buffer");
    MT& h = *new (&HOST.v) MT;
    UNROLL for (size_t i = 0; i < SZ / 8; i++) ((uint64_t*)&h)[i] = nondet_u64();
    PLEN = PMAX;
    UNROLL for (int i = 0; i < PMAX; i++) PAY[i] = nondet_u8();
    uint64_t koff = pay64(0), klen = pay64(8), voff = pay64(16), vlen = pay64(24);
#if SM_MODE == 2
    {   // sender side: key of BLEN-8 bytes (NUL-terminated), value V5; serialized with the real serializer, whose bytes become the stream
        static uint8_t FLAT[BLEN]; static Raw<V5> VAL; static Raw<sorted_map<string, V5>::ValueType> IDX; static Raw<SerializerIOV> VS;
        const size_t kl = BLEN - 8;
        V5& v = *new (&VAL.v) V5; v.val = nondet_u64();
        SerializerIOV& vs = *new (&VS.v) SerializerIOV; vs.serialize(v);
        CHECK(vs.iov.iovcnt() == 1 && vs.iov.sum() == 8, "a value without variable-length fields serializes to its body");
        UNROLL for (size_t i = 0; i < kl; i++) FLAT[i] = i + 1 < kl ? nondet_u8() : 0;
        UNROLL for (int i = 0; i < 8; i++) FLAT[kl + i] = ((uint8_t*)vs.iov[0].iov_base)[i];
        new (&IDX.v) sorted_map<string, V5>::ValueType(slice(0, kl), slice(kl, 8));
        MT& m = *new (&ORIG.v) MT;
        m.sm.index.assign(&IDX.v, 1); m.sm.base_buffer.assign(FLAT, BLEN);
        SerializerIOV& ser = *new (&SER.v) SerializerIOV; ser.serialize(m);
        CHECK(!ser.iovfull && ser.iov.iovcnt() == 3, "index, base buffer and body are serialized as three elements");
        CHECK(ser.iov[0].iov_len == ILEN && ser.iov[1].iov_len == BLEN && ser.iov[2].iov_len == SZ, "element lengths of the serialized map");
        CHECK(ser.iov[2].iov_base == (void*)&m, "the body is serialized in place");
        UNROLL for (int i = 0; i < ILEN; i++) PAY[i] = ((uint8_t*)ser.iov[0].iov_base)[i];
        UNROLL for (int i = 0; i < BLEN; i++) PAY[ILEN + i] = ((uint8_t*)ser.iov[1].iov_base)[i];
        copy_body(&h, &m);
        koff = 0; klen = kl; voff = kl; vlen = 8;
        CHECK(pay64(0) == 0 && pay64(8) == kl && pay64(16) == kl && pay64(24) == 8, "the index entry is serialized as four 64-bit numbers");
        CHECK(pay64(ILEN + kl) == v.val, "the value is stored behind the key");
    }
#else
    h.sm.index._len = ILEN; h.sm.base_buffer._len = BLEN;
#endif
    bool wellformed = koff <= BLEN && klen <= BLEN - koff && voff <= BLEN && vlen <= BLEN - voff;
#if SM_MODE == 1
    ASSUME(wellformed);
#endif
    iovector* in = build_input(&h);
    DeserializerIOV des;
    MT* t = des.deserialize<MT>(in);
    CHECK(t != nullptr, "a message whose fields fit is accepted");
    if (!t) return;
    bool ok = true;
    check_field(t->sm.index.addr(), ILEN, 0, &ok); check_field(t->sm.base_buffer.addr(), BLEN, ILEN, &ok);
    CHECK(t->sm.index.size() == 1 && t->sm.base_buffer.size() == BLEN && ok, "index and base buffer denote their bytes of the supplied stream");
    // the library's accessors on the received map
    auto it = t->sm.begin();
    CHECK(it != t->sm.end(), "a map with one index entry is not empty");
    pair<string, V5>* pr = it.operator->();        // deserializes the value: reads base[voff + vlen - 8 ..)
    if (wellformed && vlen >= 8) {
        CHECK(pr->second.val == pay64(ILEN + voff + vlen - 8), "the value is the last 8 bytes of its slice");
        CHECK(pr->first.size() == klen, "the key has the length of its slice");
        bool kok = true;
        UNROLL for (size_t k = 0; k < BLEN; k++) { if (k >= klen) break; if (((uint8_t*)pr->first.addr())[k] != pay(ILEN + koff + k)) kok = false; }
        CHECK(kok, "the key denotes the bytes of its slice");
        WITNESS("sorted_map entry read back");
    }
#if SM_MODE == 0
    if (!wellformed) WITNESS("sorted_map index entry pointing outside the base buffer");
#endif
#if SM_MODE != 0 && defined(SM_FIND)
    {   // lookup: keys are NUL-terminated strings as sorted_map_factory stores them (length >= 1 including the NUL)
        static char KEY[2]; KEY[0] = (char)nondet_u8(); KEY[1] = 0;
        string key; key.assign((const void*)KEY, 2);
        if (wellformed && klen == 2 && pay(ILEN + koff + 1) == 0) {
            auto f = t->sm.find(key);
            bool entry_less = (uint8_t)pay(ILEN + koff) < (uint8_t)KEY[0];          // one-character keys: order of the characters
            CHECK((f == t->sm.end()) == entry_less, "find returns the first entry whose key is not less than the argument");
            if (entry_less) WITNESS("lookup past the only entry"); else WITNESS("lookup finds the entry");
        }
    }
#endif
    ++it;
    CHECK(it == t->sm.end(), "iteration ends after the only entry");
}
}
#endif
