// native confirmation: hostile sorted_map index entry -> out-of-bounds read in sorted_map::Iterator::deserialize (NDEBUG build)
#include <photon/rpc/serialize.h>
#include <cstdio>
#include <cstdlib>
#include <cstring>
using namespace photon::rpc;
struct V5 : public Message { uint64_t val; PROCESS_FIELDS(val); };
struct M5 : public Message { sorted_map<string, V5> sm; PROCESS_FIELDS(sm); };
int main(int argc, char** argv)
{
    uint64_t voff = argc > 1 ? strtoull(argv[1], 0, 0) : 4096, vlen = argc > 2 ? strtoull(argv[2], 0, 0) : 8;
    const size_t BL = 8, total = 32 + BL + sizeof(M5);
    char* msg = (char*)malloc(total);                    // exact-size receive buffer
    uint64_t entry[4] = {0, 1, voff, vlen};              // key slice (0,1) is fine; value slice points outside the 8-byte base buffer
    memcpy(msg, entry, 32); memset(msg + 32, 'x', BL);
    M5 body; body.sm.index._ptr = (void*)0x1; body.sm.index._len = 32; body.sm.base_buffer._ptr = (void*)0x2; body.sm.base_buffer._len = BL;
    memcpy(msg + 32 + BL, &body, sizeof(M5));
    IOVector iov; iov.push_back(msg, total);
    DeserializerIOV des;
    M5* t = des.deserialize<M5>(&iov);
    printf("deserialize -> %p (accepted=%d), entries=%zu\n", (void*)t, t != nullptr, t ? t->sm.index.size() : 0);
    if (!t) return 1;
    auto it = t->sm.begin();
    printf("value = %llx\n", (unsigned long long)it->second.val);   // reads base + voff + vlen - 8
    return 0;
}
