// zero-length fields keep the sender's pointer bits; accessors then use them
#include <photon/rpc/serialize.h>
#include <cstdio>
#include <cstdlib>
#include <cstring>
using namespace photon::rpc;
struct M : public Message { fixed_buffer<uint64_t> f; string s; PROCESS_FIELDS(f, s); };
int main()
{
    char* msg = (char*)malloc(sizeof(M));
    M body; body.f._ptr = (void*)0x4141414141410000ULL; body.f._len = 0; body.s._ptr = (void*)0x4242424242420000ULL; body.s._len = 0;
    memcpy(msg, &body, sizeof(M));
    IOVector iov; iov.push_back(msg, sizeof(M));
    DeserializerIOV des; M* t = des.deserialize<M>(&iov);
    printf("accepted=%d f.get()=%p f.size()=%zu s.c_str()=%p s.size()=%zu s.sv().size()=%zu\n", t != nullptr, (void*)t->f.get(), t->f.size(), (void*)t->s.c_str(), t->s.size(), t->s.sv().size());
    string e; printf("default string: sv().size()=%zu\n", e.sv().size());
    printf("reading *f.get() ...\n"); fflush(stdout);
    printf("%llx\n", (unsigned long long)*t->f.get());
    return 0;
}
