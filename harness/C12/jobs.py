from vlib import Job

META = dict(bounds='', outside='', assumptions=[])
SRC = 'C12/h_ser.cpp'
SH = ['libc.c', 'c12_stubs.c']
STUB = ['--stub', '^@_ZN7IOAlloc17default_allocatorEPvNS_9RangeSizeEPS0_$', '--stub', '^@_ZN7IOAlloc19default_deallocatorEPvS0_$']
SIZES = {1: 40, 2: 56, 3: 24, 4: 40, 5: 32, 6: 16}

def gen(msg, mode, frag, npf, pmax, fmax=2, extra=(), to=400, name=None, entry=None, un=None):
    sz = SIZES[msg]
    D = ['MSG=%d' % msg, 'FRAG=%d' % frag, 'NPF=%d' % npf, 'PMAX=%d' % pmax, 'FMAX=%d' % fmax] + list(extra)
    # every loop of the harness is fully unrolled at compile time; what reaches the solver are the library's loops over iovec
    # elements (at most NPF+1 elements) and the byte loop that stands for memcpy with a symbolic length
    us = ['verif_memcpy_n.0:%d' % ((sz if frag == 1 else pmax) + 1)]
    return Job(name or 'm%d_%s_f%d_n%d' % (msg, mode, frag, npf), SRC, entry or 'harness_' + mode, defines=D, unwind=un or npf + 3, unwindset=us, shims=SH, ir2c=STUB, timeout=to)

def jobs(tier):
    q = tier == 'quick'
    J = []
    for msg in (1, 2, 3, 6):
        for mode in ('hostile', 'roundtrip'):
            for frag, npf in ((0, 0), (0, 2)):
                J.append(gen(msg, mode, frag, npf, 4 if msg != 2 else 6))
    for msg in (3, 6):
        for mode in ('hostile', 'roundtrip'):
            J.append(gen(msg, mode, 1, 1, 4))
    return J
