from vlib import Job

META = dict(
    bounds='message shapes declared with PROCESS_FIELDS: M1 {int32; buffer; string}, M2 {nested Message {uint32; buffer}; array<uint16>; aligned_buffer}, '
           'M3 = CheckedMessage<> {uint32; string}, M4 {fixed_buffer<uint32>; iovec_array}, M5 {sorted_map<string, V{uint64}>} with one index entry, M6 {buffer}. '
           'Round trip: every field length 0..2 bytes/elements (symbolic contents), serialized by the real SerializerIOV, the byte stream re-cut at symbolic points into '
           'NPF+1 iovec elements (NPF = 0, 1, 2; zero-length elements included), every piece end-aligned in its own object, deserialized by the real DeserializerIOV. '
           'Hostile: all sizeof(T) body bytes arbitrary (64-bit lengths and pointer bits), payload of 0..PMAX arbitrary bytes (PMAX 4; 6 for M1 and M6 in the thorough tier), same fragmentations; '
           'body contiguous in the last element (FRAG 0, the payload tail may share that element) or cut strictly inside the body so that it is reassembled through the '
           'allocator (FRAG 1). The allocator of the input vector is a harness callback returning exact-size blocks (optionally failing symbolically).',
    outside='messages with more than 3 variable-length fields or longer payloads; more than 3 iovec elements; sorted maps with more than one entry or keys longer than one character; sorted_map_factory (std::vector / unique_ptr; the '
            'round trip lays the map out by hand the way the factory does); aligned_iovec_array; '
            'the CRC32C table code itself (common/checksum/crc.cpp does not compile with clang: unbalanced #pragma clang attribute pop at line 770; its table lives in malloc memory built at run time); under-reads in front of a piece (pieces are end-aligned: an access past the end of a piece is out of bounds for the '
            'solver, an access in front of its start is caught only by the explicit checks that every result field denotes exactly its bytes of the stream)',
    assumptions=['crc32c_extend (function pointer crc32c_auto) is bound to a recording byte-sequential fold c -> rotl(c, 8) ^ byte ^ 0x5a instead of the CRC32C table code: '
                 'the checks state which bytes are hashed, in which order, that calls are chained, and that validate accepts iff the stored value equals the final value',
                 'IOAlloc::default_allocator / default_deallocator (malloc of a symbolic size) are stubs that assert they are never reached (rt/c12_stubs.c); the vector handed to '
                 'deserialize carries the harness allocator',
                 'the vector handed to deserialize is IOVectorEntity<NPF+1, 0> (same template as IOVector = IOVectorEntity<32, 4>); SerializerIOV and sorted_map::Iterator use the real IOVector',
                 'M4 and M5 jobs are translated with --null-gep-ok: `p + i` with p == nullptr and i == 0 (array<T>::end() of an empty array) is defined in C++ and not reported',
                 'logging macros have empty bodies; NDEBUG build: assert() compiled out (as shipped)'],
)
SRC = 'C12/h_ser.cpp'
SH = ['libc.c', 'c12_stubs.c']
STUB = ['--stub', '^@_ZN7IOAlloc17default_allocatorEPvNS_9RangeSizeEPS0_$', '--stub', '^@_ZN7IOAlloc19default_deallocatorEPvS0_$']
SIZES = {1: 40, 2: 56, 3: 24, 4: 40, 5: 32, 6: 16}
NAMES = {1: 'int_buffer_string', 2: 'nested_array_aligned', 3: 'checked', 4: 'fixedbuf_iovecarray', 5: 'sortedmap', 6: 'buffer'}
FR = {(0, 0): 'one contiguous buffer', (0, 1): '2 elements, body contiguous', (0, 2): '3 elements, body contiguous', (1, 1): '2 elements, cut inside the body',
      (1, 2): '3 elements, last cut inside the body'}

def gen(msg, mode, frag, npf, pmax, fmax=2, extra=(), to=900, name=None, entry=None, un=None, nullgep=False, desc=None, us_extra=()):
    sz = SIZES[msg]
    D = ['MSG=%d' % msg, 'FRAG=%d' % frag, 'NPF=%d' % npf, 'PMAX=%d' % pmax, 'FMAX=%d' % fmax] + list(extra)
    # every loop of the harness is fully unrolled at compile time; what reaches the solver are the library's loops over iovec
    # elements (at most NPF+1 elements), the byte loop that stands for memcpy with a symbolic length and the checksum recorder's byte loop
    us = ['verif_memcpy_n.0:%d' % ((sz if frag == 1 else pmax) + 1), 'f__ZL7crc_recPKhmj.0:%d' % (pmax + 1)] + list(us_extra)
    nm = name or 'm%d_%s_f%d_n%d' % (msg, mode, frag, npf)
    return Job(nm, SRC, entry or 'harness_' + mode, defines=D, unwind=un or npf + 3, unwindset=us, shims=SH, ir2c=STUB + (['--null-gep-ok'] if nullgep else []), timeout=to,
               desc=desc or '%s of %s, %s' % (mode, NAMES[msg], FR[(frag, npf)]), bounds='payload <= %d bytes, fields <= %d elements, %d iovec elements' % (pmax, fmax, npf + 1))

def jobs(tier):
    q = tier == 'quick'
    to = 900 if q else 6000
    P = 4
    J = []
    frs = [(0, 0), (0, 2)] if q else [(0, 0), (0, 1), (0, 2)]
    for msg in (1, 2, 3, 4, 6):
        for mode in ('hostile', 'roundtrip'):
            for frag, npf in frs:
                pm = P
                if msg == 4 and mode == 'roundtrip': pm = 6          # fixed buffer (4 bytes) + iovec elements
                if q and msg == 2 and npf == 2: npf = 1              # three fields: 3 elements take > 3 min, thorough tier only
                J.append(gen(msg, mode, frag, npf, pm, extra=['IOVEC_POOL'] if msg == 4 else [], nullgep=(msg == 4), to=to))
    if not q:
        # deeper: payload up to 6 bytes, round-trip fields up to 3 bytes
        for msg in (1, 6):
            for mode in ('hostile', 'roundtrip'):
                for frag, npf in ((0, 0), (0, 2)):
                    J.append(gen(msg, mode, frag, npf, 6, fmax=3, to=to, name='m%d_%s_f%d_n%d_p6' % (msg, mode, frag, npf)))
    # body cut in the middle: reassembled through the allocator (copying path of extract_back_continuous), then validated / parsed in the copy
    for msg, mode, npf in [(6, 'hostile', 1), (6, 'roundtrip', 1)] + ([] if q else [(3, 'roundtrip', 1), (6, 'hostile', 2), (6, 'roundtrip', 2)]):
        J.append(gen(msg, mode, 1, npf, P, to=to))
    # a checked message with one payload byte altered after serialization
    J.append(gen(3, 'roundtrip', 0, 1, P, extra=['ALTER'], name='m3_altered_byte', to=to, desc='checked message, one payload byte altered: rejected'))
    # allocator failures
    J.append(gen(6, 'hostile', 1, 1, P, extra=['ALLOCFAIL=1'], name='m6_hostile_allocfail', to=to, desc='hostile bytes, allocator may fail: deserialize fails cleanly'))
    J.append(gen(4, 'hostile', 0, 2, P, extra=['IOVEC_POOL', 'ALLOCFAIL=1', 'NO_SIZE_MAX'], nullgep=True, name='m4_hostile_allocfail_no_sizemax', to=to,
                 desc='hostile bytes incl. iovec_array, allocator may fail, summed_size != SIZE_MAX'))
    j = gen(4, 'hostile', 0, 2, P, extra=['IOVEC_POOL', 'ALLOCFAIL=1'], nullgep=True, name='hostile_iovecarray_allocfail', to=to,
            desc='hostile bytes incl. iovec_array, allocator may fail (FAILS: summed_size == SIZE_MAX equals the -1 error code of extract_front and is accepted as an empty array)')
    j.kf = 'C12-iovecarray-allocfail'; J.append(j)
    # accessors of zero-length / short fields (beyond [ptr, ptr+len): what the library's own getters return for an accepted hostile message)
    j = gen(1, 'hostile', 0, 0, P, extra=['ACCESSORS'], name='hostile_string_sv_accessor', to=to,
            desc='string::sv() of an accepted hostile message (FAILS: a string of length 0 keeps the sender\'s pointer bits and sv() has length SIZE_MAX)')
    j.kf = 'C12-zero-length-accessors'; J.append(j)
    j = gen(4, 'hostile', 0, 0, P, extra=['IOVEC_POOL', 'ACCESSORS'], nullgep=True, name='hostile_fixedbuf_get_accessor', to=to,
            desc='*fixed_buffer<T>::get() of an accepted hostile message (FAILS: the length is not checked against sizeof(T); length 0 keeps the sender\'s pointer bits)')
    j.kf = 'C12-zero-length-accessors'; J.append(j)
    # sorted_map
    SM = ['BLEN=10']
    SMU = ['f_harness_sortedmap.%d:12' % i for i in range(3)]     # the harness loop that reads the key bytes
    J.append(gen(5, 'sortedmap', 0, 0, 42, extra=SM + ['SM_MODE=1', 'SM_FIND'], name='sortedmap_wellformed', un=4, us_extra=SMU, nullgep=True, to=to,
                 desc='received sorted_map whose index entry lies inside the base buffer: begin/end/operator->/find return the denoted key and value'))
    J.append(gen(5, 'sortedmap', 0, 0, 42, extra=SM + ['SM_MODE=2', 'SM_FIND'], name='sortedmap_roundtrip', un=4, us_extra=SMU, nullgep=True, to=to,
                 desc='one-entry sorted_map laid out like sorted_map_factory, serialized, deserialized, read back'))
    j = gen(5, 'sortedmap', 0, 0, 42, extra=SM + ['SM_MODE=0'], name='hostile_sortedmap', un=4, us_extra=SMU, nullgep=True, to=to,
            desc='received sorted_map with an arbitrary index entry: the library accessors must stay inside the supplied bytes (FAILS: slice::anchor only assert()s its bounds)')
    j.kf = 'C12-sortedmap-anchor'
    J.append(j)
    return J
