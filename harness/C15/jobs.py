from vlib import Job

META = dict(
    technique='bounded symbolic execution of the clang IR of fs/range-split.h, range-split-vi.h (ir2c -> CBMC/SAT); '
              'full-width integer-arithmetic encoding of init()/operator++ discharged by z3 (ir2smt)',
    bounds='fixed interval: offset, length, interval < 2^BITS (5 quick / 7 thorough), <= K+1 parts; '
           'power-of-two: full 64-bit offset/length, shift <= 40, length <= K*interval; variable interval: 5 key points, full 64-bit',
    outside='ranges whose end + interval wraps 2^64 (assumed away, listed); more than K+1 parts in the loop harnesses '
            '(the ir2smt step lemma covers any number of parts by induction on the block index; the induction itself is not mechanised)',
    assumptions=['offset + length + interval < 2^64', 'key points of range_split_vi ascend from 0 to UINT64_MAX (documented precondition)',
                 'NDEBUG build as shipped: assert() compiled out'],
)

SRC = 'C15/h_split.cpp'

def jobs(tier):
    J = []
    if tier == 'quick':
        J.append(Job('fixed_b5', SRC, 'harness_fixed', defines=['M_FIXED', 'K=3', 'BITS=5'], unwind=6, tv=True,
                     desc='range_split, symbolic interval', bounds='values < 2^5, len <= 3*interval', timeout=900))
        J.append(Job('pow2_k2', SRC, 'harness_pow2', defines=['M_POW2', 'K=2', 'MAXSHIFT=40'], unwind=5, tv=True,
                     desc='range_split_power2 full width', bounds='64-bit offset/length, shift<=40, len <= 2*interval', timeout=900))
        J.append(Job('vi_4', SRC, 'harness_vi', defines=['M_VI', 'K=2', 'NK=4'], unwind=6, tv=True,
                     desc='range_split_vi, 4 key points', bounds='64-bit, 4 symbolic key points', timeout=900))
    else:
        J.append(Job('fixed_b7', SRC, 'harness_fixed', defines=['M_FIXED', 'K=4', 'BITS=7'], unwind=7, tv=True,
                     desc='range_split, symbolic interval', bounds='values < 2^7, len <= 4*interval', timeout=3000))
        J.append(Job('pow2_k4', SRC, 'harness_pow2', defines=['M_POW2', 'K=4', 'MAXSHIFT=62'], unwind=7, tv=True,
                     desc='range_split_power2 full width', bounds='64-bit offset/length, shift<=62, len <= 4*interval', timeout=3000))
        J.append(Job('vi_5', SRC, 'harness_vi', defines=['M_VI', 'K=3', 'NK=5'], unwind=7, tv=True,
                     desc='range_split_vi, 5 key points', bounds='64-bit, 5 symbolic key points', timeout=3000))
    return J
