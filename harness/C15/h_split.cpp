// C15: range split tiles the requested range block by block.
// Real code: photon/fs/range-split.h, range-split-vi.h (header-only, compiled from /repo as is).
#include "verif_h.h"
#include <photon/fs/range-split.h>
#include <photon/fs/range-split-vi.h>
using namespace photon::fs;

#ifndef K
#define K 3      // len <= K * interval  => at most K+1 parts
#endif
#ifndef BITS
#define BITS 5
#endif

struct part { uint64_t i, offset, length; };

// blk_begin(i) / blk_len(i): where block i starts and how long it is, by the splitter's own multiply/get_length
template<class RS>
static inline void check_all(const RS& rs, uint64_t off, uint64_t len)
{
    part all[K + 2]; unsigned n = 0;
    uint64_t pos = off;
    for (auto& x : rs.all_parts()) {
        ASSUME(n < K + 2);
        if (len > 0) {
            CHECK(x.length > 0, "every part of a non-empty range is non-empty");
            CHECK(rs.multiply(x.i, x.offset) == pos, "parts are adjacent: each starts where the previous ended");
            CHECK(x.offset + x.length <= rs.get_length(x.i), "a part lies inside a single interval block");
            CHECK(x.offset < rs.get_length(x.i), "part offset is inside its block");
        } else {
            CHECK(x.length == 0, "an empty range produces no non-empty part");
        }
        all[n].i = x.i; all[n].offset = x.offset; all[n].length = x.length;
        pos += x.length; n++;
    }
    CHECK(pos == off + len, "the union of the parts is exactly the requested range");
    if (len > 0) CHECK(n >= 1, "a non-empty range has at least one part");

    // classification consistent with that list
    if (len > 0) {
        unsigned k = 0;
        if (rs.small_note) {
            CHECK(n == 1 && all[0].i == rs.small_note.i && all[0].offset == rs.small_note.offset && all[0].length == rs.small_note.length,
                  "small note is the single part");
            CHECK(rs.small_note.offset > 0 && rs.small_note.offset + rs.small_note.length < rs.get_length(rs.small_note.i),
                  "small note is unaligned on both ends");
        } else {
            if (rs.preface) {
                CHECK(k < n && all[k].i == rs.preface.i && all[k].offset == rs.preface.offset && all[k].length == rs.preface.length,
                      "preface is the first part");
                CHECK(rs.preface.offset > 0 && rs.preface.offset + rs.preface.length == rs.get_length(rs.preface.i),
                      "preface: unaligned begin, aligned end");
                k++;
            }
            for (auto& x : rs.aligned_parts()) {
                ASSUME(k < K + 2);
                CHECK(k < n && all[k].i == x.i && all[k].offset == 0 && x.offset == 0 && all[k].length == x.length,
                      "aligned parts follow in order");
                CHECK(x.length == rs.get_length(x.i), "aligned part is a whole block");
                k++;
            }
            if (rs.postface) {
                CHECK(k < n && all[k].i == rs.postface.i && all[k].offset == 0 && rs.postface.offset == 0 && all[k].length == rs.postface.length,
                      "postface is the last part");
                CHECK(rs.postface.length < rs.get_length(rs.postface.i), "postface: aligned begin, unaligned end");
                k++;
            }
            CHECK(k == n, "classified members cover all parts, nothing else");
        }
        CHECK(all[0].i == rs.first.i && all[0].offset == rs.first.offset && all[0].length == rs.first.length, "first is the first part");
    }
}

extern "C" {

#ifdef M_FIXED
// symbolic interval: reduced width (bit-blasted symbolic division is SAT-hard, DESIGN 2.3)
void harness_fixed()
{
    uint64_t off = nondet_u64(), len = nondet_u64(), itv = nondet_u64();
    const uint64_t B = 1ULL << BITS;
    ASSUME(itv >= 1 && itv < B && off < B && len < B);
    ASSUME(len <= K * itv);
    range_split rs(off, len, itv);
    check_all(rs, off, len);
    uint64_t ab = rs.aligned_begin_offset(), ae = rs.aligned_end_offset();
    CHECK(ab <= off && off - ab < itv, "aligned begin encloses with < 1 interval slack");
    CHECK(ae >= off + len && ae - (off + len) < itv, "aligned end encloses with < 1 interval slack");
    CHECK(ab % itv == 0 && ae % itv == 0, "aligned offsets are multiples of the interval");
    CHECK(rs.aligned_length() == ae - ab, "aligned length");
    if (len > 0) WITNESS("fixed: non-empty range reached the end");
    if (len > itv && off % itv) WITNESS("fixed: multi-part unaligned");
    if (len == 0) WITNESS("fixed: empty");
}
#endif

#ifdef M_POW2
// power-of-two interval: full 64-bit offset/length, symbolic shift
void harness_pow2()
{
    uint64_t off = nondet_u64(), len = nondet_u64(); uint8_t sh = nondet_u8();
    ASSUME(sh <= MAXSHIFT);
    uint64_t itv = 1ULL << sh;
    ASSUME(len <= K * itv);
    ASSUME(off <= UINT64_MAX - len && off + len <= UINT64_MAX - itv);   // listed assumption: end + interval does not wrap
    range_split_power2 rs(off, len, itv);
    check_all(rs, off, len);
    uint64_t ab = rs.aligned_begin_offset(), ae = rs.aligned_end_offset();
    CHECK(ab <= off && off - ab < itv, "aligned begin encloses with < 1 interval slack");
    CHECK(ae >= off + len && ae - (off + len) < itv, "aligned end encloses with < 1 interval slack");
    CHECK((ab & (itv - 1)) == 0 && (ae & (itv - 1)) == 0, "aligned offsets are multiples of the interval");
    if (len > 0) WITNESS("pow2: non-empty range reached the end");
    if (len > itv && (off & (itv - 1))) WITNESS("pow2: multi-part unaligned");
    if (len == 0) WITNESS("pow2: empty");
}
#endif

#ifdef M_VI
// variable intervals: NK symbolic ascending key points 0 < k1 < ... < UINT64_MAX
#ifndef NK
#define NK 5
#endif
void harness_vi()
{
    uint64_t kp[NK];
    kp[0] = 0; kp[NK - 1] = UINT64_MAX;
    for (unsigned i = 1; i + 1 < NK; i++) { kp[i] = nondet_u64(); ASSUME(kp[i] > kp[i - 1] && kp[i] < UINT64_MAX); }
    uint64_t off = nondet_u64(), len = nondet_u64();
    ASSUME(off <= UINT64_MAX - len && off + len < UINT64_MAX);
    range_split_vi rs(off, len, kp, NK);
    check_all(rs, off, len);
    uint64_t ab = rs.aligned_begin_offset(), ae = rs.aligned_end_offset();
    CHECK(ab <= off && off - ab < rs.get_length(rs.abegin), "vi: aligned begin within its block");
    CHECK(ae >= off + len, "vi: aligned end encloses");
    if (len > 0) WITNESS("vi: non-empty");
    if (len > 0 && rs.preface && rs.postface) WITNESS("vi: preface and postface");
}
#endif
}
