// C01 (spin-lock family, OS-thread level): spinlock and ticket_spinlock give mutual exclusion between OS threads.
// Real code: photon::spinlock / ticket_spinlock (thread/thread.h inline members + thread/thread.cpp out-of-line parts),
// executed by native CBMC threads (shared state is integers only), every interleaving of the atomic steps, SC and x86-TSO.
#include "verif_h.h"
#include "nolog.h"
#include "thread/thread.cpp"
extern "C" void verif_spawn(void (*f)(void*), void* arg);
using namespace photon;
#ifndef LOCK
#define LOCK spinlock
#endif
static LOCK L;
static volatile int cs = 0;
static volatile int done = 0;
extern "C" {
NOINL void worker(void* a)
{
    for (int k = 0; k < ROUNDS; k++) {
#ifdef TRY
        if (!(L.try_lock() == 0)) continue;
#else
        L.lock();
#endif
        cs = cs + 1;
        CHECK(cs == 1, "mutual exclusion: at most one thread inside the critical section");
        cs = cs - 1;
        L.unlock();
    }
    __atomic_fetch_add(&done, 1, __ATOMIC_SEQ_CST);
}
void harness_spin()
{
    for (long i = 0; i < NT; i++) verif_spawn(worker, (void*)i);
    ASSUME(done == NT);
    WITNESS("all threads finished");
}
}
