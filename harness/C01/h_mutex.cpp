// C01 (photon mutex on the kernel contract K): one owner at a time, lock() result matches ownership,
// a failed lock (timeout / interrupt) leaves the mutex usable and the hand-off goes to exactly one waiter.
// Real code: mutex::lock / try_lock / unlock, do_mutex_unlock, ScopedLockHead, indirect_lock, waitq_translate_errno,
// thread_interrupt (guard logic), thread::dequeue_ready_atomic, intrusive list, spinlock - all inlined into the thread entries.
// Stub boundary: K (rt/kcontract.h).
#include "verif_h.h"
#include "nolog.h"
#define noinline
#include "thread/thread.cpp"
#undef noinline
#include "kcontract.h"
using namespace photon;

#ifndef RETRIES
#define RETRIES 0
#endif
static Raw<mutex> M;
static int incs;              // ghost: threads inside the critical section
static int held_by = -1;      // ghost: model index of the thread inside
static bool finished[KN];
static int lockret[KN], lockerr[KN];

static inline Timeout sym_timeout()
{
    uint8_t k = nondet_u8(); ASSUME(k < 3);
    if (k == 0) return Timeout();          // never
    if (k == 1) return Timeout(100);       // finite, in the future: the scheduler may let it expire at any moment
    return Timeout(0);                     // already expired
}

template<int ME> static inline __attribute__((always_inline)) void do_locker()
{
    mutex& m = M.v;
    Timeout t = sym_timeout();
    int r = m.lock(t);
    int e = errno;
    lockret[ME] = r; lockerr[ME] = e;
    if (r == 0) {
        CHECK(m.owner.load() == K_thread(ME), "lock() returned 0: the caller is the owner");
        incs++; CHECK(incs == 1, "mutual exclusion: at most one thread inside the mutex");
        held_by = ME;
#ifdef YIELD_INSIDE
        thread_yield();
#endif
        CHECK(m.owner.load() == K_thread(ME), "ownership is stable while inside");
        incs--; held_by = -1;
        m.unlock();
    } else {
        CHECK(r == -1, "failure is -1");
        CHECK(m.owner.load() != K_thread(ME), "lock() failed: the caller is not the owner");
        CHECK(e == ETIMEDOUT || e == EINTR, "failure reason is the timeout or the interrupter's errno");
        CHECK(K_thread(ME)->waitq == nullptr, "a failed locker is in no wait queue");
    }
    finished[ME] = true;
}

extern "C" {
void thread_entry_0() { do_locker<0>(); }
void thread_entry_1() { do_locker<1>(); }
#if NT > 2
#ifdef INTERRUPTER
// environment actor: interrupts thread 1 at an arbitrary point of its acquisition protocol
void thread_entry_2() { thread_interrupt(K_thread(1), nondet_bool() ? EINTR : -1); finished[2] = true; }   // -1 is the reason an unlock hand-off uses: a public caller may send it too
#else
void thread_entry_2() { do_locker<2>(); }
#endif
#endif
NOINL void world_init() { new (&M.v) mutex(RETRIES); }
NOINL void world_final(uint32_t all_done, uint32_t stuck)
{
    if (all_done) {
        CHECK(M.v.owner.load() == nullptr, "quiescence: the mutex is free");
        CHECK(M.v.q.th == nullptr, "quiescence: the wait queue is empty");
        CHECK(incs == 0, "quiescence: nobody inside");
        if (lockret[0] == 0 && lockret[1] == 0) WITNESS("both lockers acquired");
        if (lockret[1] == -1 && lockerr[1] == ETIMEDOUT) WITNESS("locker 1 timed out");
#ifdef INTERRUPTER
        if (lockret[1] == -1 && lockerr[1] == EINTR) WITNESS("locker 1 was interrupted");
#endif
    }
}
}
