from vlib import Job

META = dict(
    bounds='spinlock / ticket_spinlock: 2 threads x 2 lock/unlock rounds and 3 threads x 1 round, every interleaving of the atomic steps, SC and x86-TSO (native CBMC threads)',
    outside='more threads/rounds; weak memory models other than SC and x86-TSO (ARM ordering of acquire/release/relaxed is outside the claim); spin-loop liveness '
            '(a spinning iteration is cut with assume(false): it reads but does not change shared state)',
    assumptions=['await-as-assume for pause/spin iterations (stutter-equivalence argument, DESIGN 2.4)', 'cs counter is a plain shared int updated inside the critical section only'],
)
SRC = 'C01/h_spin.cpp'
SH = ['libc.c', 'threads.c']

def jobs(tier):
    q = tier == 'quick'
    J = []
    cfgs = [('spinlock', 2, 2, 0), ('spinlock', 3, 1, 0), ('spinlock', 2, 2, 1), ('ticket_spinlock', 2, 2, 0), ('ticket_spinlock', 3, 1, 0)]
    if not q: cfgs += [('spinlock', 3, 2, 0), ('ticket_spinlock', 3, 2, 0)]
    for lock, nt, rounds, tr in cfgs:
        for mm in ('sc', 'tso'):
            D = ['LOCK=' + lock, 'NT=%d' % nt, 'ROUNDS=%d' % rounds] + (['TRY'] if tr else [])
            J.append(Job('%s_%dt%dr%s_%s' % (lock, nt, rounds, '_try' if tr else '', mm), SRC, 'harness_spin', defines=D, unwind=max(nt, rounds) + 2, shims=SH,
                         cbmc=['--mm', mm], nochecks=True, timeout=600 if q else 3000,
                         desc='%s %s, %d threads x %d rounds, %s' % (lock, 'try_lock' if tr else 'lock', nt, rounds, mm.upper()),
                         bounds='%d threads x %d rounds, memory model %s' % (nt, rounds, mm)))
    return J

# ---- photon mutex on the kernel contract K (sequentialised threads, cooperative scheduling + symbolic timeout/interrupt events)
KSTUB = ['--thread', '^@thread_entry_', '--asm', 'rol $$1, $0=verif_rol1',
         '--blocking', r'^@_ZN6photonL19thread_usleep_deferENS_7TimeoutEPNS_11thread_listEPFvPvES3_$=K_usleep_defer_begin,K_usleep_end',
         '--blocking', r'^@_ZN6photonL13thread_usleepENS_7TimeoutEPNS_11thread_listE$=K_usleep_begin,K_usleep_end',
         '--blocking', r'^@_ZN6photon13thread_usleepENS_7TimeoutE$=K_usleep_public_begin,K_usleep_end',
         '--blocking', r'^@_ZN6photon12thread_yieldEv$=K_yield_begin,K_yield_end',
         '--map', r'^@_ZN6photonL26prelocked_thread_interruptEPNS_6threadEi$=K_prelocked_interrupt']
KCLANG = ['-mllvm', '-inline-threshold=100000000'] + sum([['-mllvm', '-force-attribute=%s:noinline' % f] for f in [
    '_ZN6photonL19thread_usleep_deferENS_7TimeoutEPNS_11thread_listEPFvPvES3_', '_ZN6photonL13thread_usleepENS_7TimeoutEPNS_11thread_listE',
    '_ZN6photon13thread_usleepENS_7TimeoutE', '_ZN6photon12thread_yieldEv', '_ZN6photonL26prelocked_thread_interruptEPNS_6threadEi']], [])
KROOTS = ['^@thread_entry_', '^@K_', '^@world_']

def kjob(name, src, nt, slices, defines, mode='coop', timeout=900, desc='', unwind=4, mem_gb=12, kn=None):
    unwind = max(unwind, (kn or nt) + 1)      # harness loops over the model threads
    # kn > nt: additional thread objects that never run (constructed sleepers: pure queue state)
    return Job(name, src, 'sched', roots=KROOTS, defines=['NT=%d' % nt, 'KN=%d' % (kn or nt)] + defines, clang=KCLANG,
               ir2c=KSTUB + (['--cs-none'] if mode == 'coop' else ['--cs-atomic-only', '--cs-before-blocking']), shims=['libc.c', 'sched.c'],
               cbmc=['-DNT=%d' % nt, '-DSLICES=%d' % slices] + (['-DVERIF_SHARED_ERRNO', '-DVERIF_SPIN_IS_DEADLOCK'] if mode == 'coop' else []),   # one vCPU: errno is shared and a spin is a deadlock; several vCPUs: errno per OS thread, await-as-assume
               unwind=unwind, unwindset=['f_sched.0:%d' % (slices + 1)], nochecks=False, timeout=timeout, mem_gb=mem_gb,   # (rt/kcontract.h and rt/sched.c are loop-free besides the slice loop)
               desc=desc, bounds='%d threads, <= %d execution slices, %s scheduling' % (nt, slices, 'cooperative (switch at blocking calls)' if mode == 'coop' else 'pre-emptive at atomic operations'))

# ---- contract-level sync layer (rt/ksync.h): clients of mutex / cv / semaphore
KSYNC_IR2C = ['--thread', '^@thread_entry_',
    '--blockingc', r'^@_ZN6photon5mutex4lockENS_7TimeoutE$=K_mutex_lock_begin,K_mutex_lock_end',
    '--map', r'^@_ZN6photon5mutex8try_lockEv$=K_mutex_try_lock', '--map', r'^@_ZN6photon5mutex6unlockEv$=K_mutex_unlock',
    '--blockingc', r'^@_ZN6photon18condition_variable4waitEPNS_5mutexENS_7TimeoutE$=K_cv_wait_begin,K_cv_wait_end',
    '--blockingc', r'^@_ZN6photon18condition_variable4waitEPNS_8spinlockENS_7TimeoutE$=K_cv_wait_spin_begin,K_cv_wait_end',
    '--map', r'^@_ZN6photon5waitq10resume_oneEi$=K_cv_notify_one', '--map', r'^@_ZN6photon5waitq10resume_allEi$=K_cv_notify_all',
    '--blockingc', r'^@_ZN6photon9semaphore18wait_interruptibleEmNS_7TimeoutE$=K_sem_wait_begin,K_sem_wait_end',
    '--map', r'^@_ZN6photon9semaphore10try_resumeEm$=K_sem_try_resume',
    '--map', r'^@_ZN6photon16thread_interruptEPNS_6threadEi$=K_thread_interrupt',
    '--blockingc', r'^@_ZN6photon12thread_yieldEv$=K_yield_begin,K_yield_end',
    '--blockingc', r'^@_ZN6photon13thread_usleepENS_7TimeoutE$=K_usleep_begin,K_usleep_end']

def ksjob(name, src, nt, slices, defines, timeout=900, desc='', unwind=4, mem_gb=12, shims=(), preempt=False, stuck_legal=False, extra_ir2c=(), exact_unwind=False):
    if not exact_unwind: unwind = max(unwind, nt + 1)      # harness loops over the model threads (C11's harness is loop-free: exact_unwind)
    return Job(name, src, 'sched', roots=KROOTS, defines=['NT=%d' % nt, 'KN=%d' % nt] + defines, clang=['-mllvm', '-inline-threshold=100000000'],
               ir2c=KSYNC_IR2C + list(extra_ir2c) + (['--cs-atomic-only', '--cs-before-blocking'] if preempt else ['--cs-none']), shims=['libc.c', 'sched.c'] + list(shims),
               cbmc=['-DNT=%d' % nt, '-DSLICES=%d' % slices] + (['-DVERIF_STUCK_IS_LEGAL'] if stuck_legal else []) + ([] if preempt else ['-DVERIF_SPIN_IS_DEADLOCK']), unwind=unwind,   # rt/ksync.h and rt/sched.c are loop-free besides the slice loop
               unwindset=['f_sched.0:%d' % (slices + 1)], timeout=timeout, mem_gb=mem_gb, desc=desc,
               bounds='%d threads, <= %d execution slices, mutex/cv/semaphore as contracts (rt/ksync.h), %s' % (nt, slices, 'pre-emption at atomic operations' if preempt else 'switch at blocking calls'))

_spin_jobs = jobs
def jobs(tier):
    J = _spin_jobs(tier)
    q = tier == 'quick'
    J.append(kjob('mutex_2t', 'C01/h_mutex.cpp', 2, 6, ['RETRIES=0', 'YIELD_INSIDE'], desc='2 lockers, symbolic timeouts, owner yields inside'))
    J.append(kjob('mutex_2t_retry', 'C01/h_mutex.cpp', 2, 7, ['RETRIES=1', 'YIELD_INSIDE'], desc='2 lockers, one yield-retry before sleeping'))
    J.append(kjob('mutex_2t_intr', 'C01/h_mutex.cpp', 3, 7, ['RETRIES=0', 'YIELD_INSIDE', 'INTERRUPTER'], desc='2 lockers + an interrupter of locker 1'))
    J.append(kjob('mutex_2t_mv', 'C01/h_mutex.cpp', 2, 5, ['RETRIES=0'], mode='preempt', desc='2 lockers on different vCPUs: pre-emption before every atomic operation and blocking call of the primitive', timeout=900, mem_gb=10))
    J.append(kjob('mutex_3t', 'C01/h_mutex.cpp', 3, 8, ['RETRIES=0', 'YIELD_INSIDE'], desc='3 lockers, symbolic timeouts', mem_gb=10, timeout=900))
    return J
