from vlib import Job

META = dict(
    bounds='SINGLE-READER DATA PATH ONLY.  Source file of symbolic size 1..S (S = 8 or 12: two or three pages, aligned or not) with symbolic content; page_size_ = 4, refill unit 4 '
           '(thorough: also 8); media = byte array + per-page "present" bitmap, initially any subset of pages present with media == source there, or (symbolic choice) an empty media file '
           'whose size is not yet known to the store (actual_size_ = 0, fetched through the source\'s fstat); one read (thorough: two reads in sequence) at symbolic offset 0..S+1 with '
           '1, 2 (thorough: 3) segments of symbolic length 0..4 (quick two-segment job: 0..2) in exact-end static buffers; prefetch(count 0..S+2, offset 0..S+1) -> try_refill_range; '
           'fault jobs: every source preadv2 / media read / media write may fail (-1) or be short, the hole query, the refill-buffer allocator and the source fstat may fail (all symbolic choices). '
           'Hole-query lemmas: the harness store\'s query over the bitmap and over the real RangeModule (state = any subset of 3 pages), and RangeModule alone: 2 (thorough 3) symbolic '
           'addRange calls with offsets <= 31 (15), symbolic request, symbolic witness byte',
    outside='NOT ENCODED (the property statement is wider than this check): concurrent readers / refills of the same or overlapping ranges (RangeLock conflicts, -EAGAIN retry, cv wake-up), '
            'the thread pool and asynchronous refill (async_refill, m_refilling, m_refilling_threshold, pin_wbuf/unpin_wbuf), eviction by quota / capacity / forceRecycle / on request while a '
            'file is open and read, LRU, re-use of the cache directory by a new pool, the real file systems (fiemap, fallocate, ftruncate, lseek SEEK_DATA/SEEK_HOLE) and FileCacheStore / '
            'FileCachePool / CachedFs themselves, write-back and write-through modes (O_WRITE_BACK, RW_V2_WRITE_BACK, pwritev2), RW_V2_CACHE_ONLY / O_CACHE_ONLY reads, a source that changes '
            'size, more than 3 pages / 3 segments / 4 bytes per segment, refill units other than 4 and 8 bytes (the shipped pool uses multiples of 4096).',
    assumptions=[
        'pool_ == nullptr (refills run inline), src_fs_ == nullptr with src_file_ set (open_src_file returns at once), open_flags_ == 0, flags == 0: checked at set-up',
        'harness store (subclass of ICacheStore): queryRefillRange = outer hull of the missing pages that intersect the request, aligned to the refill unit (or the real RangeModule + the '
        'alignment arithmetic of FileCacheStore::queryRefillRangeByMap); do_preadv2 / do_pwritev2 move bytes between the request\'s buffers and the media array, a write marks the pages it '
        'covers completely (up to end of file) present; evict clears the pages it touches; set_quota / stat unused',
        'source file (IFile): preadv2 copies from the source array, fstat reports the size; every other IFile method counts as unexpected (checked 0)',
        'IOAlloc given to the store: hands out the refill buffer in one piece that ends at the end of a static 12-byte array (overrun = out of bounds, bytes in front are guard bytes, checked), '
        'arbitrary initial content, one live block at a time (checked); ::malloc / ::free (default IOAlloc of the `input` IOVector, used by IOVector::slice) -> a typed static iovec array',
        'IOVector is instantiated as IOVectorEntity<4, 0> instead of <32, 4> (same class template, same code; at most 3 entries are ever used - IOVectorEntity(iov, iovcnt) asserts '
        'iovcnt + reserve < capacity); thorough job read_1seg_cap32 runs the shipped <32, 4>',
        'photon::mutex::lock/unlock (open_lock_) sequential no-ops; condition_variable::wait / waitq::resume_all (RangeLock) sequential no-ops (rt/sync_seq.c); photon::spinlock is the real one; '
        'thread_create_ex, thread_migrate, ICachePool::store_release, ICacheStore::async_refill report being reached (pool path)',
        'std::set out-of-line helpers: rt/c17_rbtree.c = unbalanced-BST stand-ins of rt/rbtree.c, plus empty/one-element fast paths for the RangeLock set that CHECK that the set holds at most '
        'one element (a single reader holds one refill range at a time)',
        'symbolic-length memcpy (rt/c17_stubs.c verif_c17_memcpy_n): iovec arrays copied element-wise, payload copies (<= 12 bytes) CHECKed to run between two buffers of the request',
        'kept out of the translation, each with a body that reports being reached: IStream::readv_mutable/writev_mutable, the ICacheStore defaults do_preadv2_mutable / do_pwritev2 / '
        'do_pwritev2_mutable (mutually forwarding; a concrete store overrides them), destructors of the harness objects',
        'loop bounds that encode single-reader facts, each checked by an unwinding assertion: `goto again` retry loops of preadv2 / try_refill_range never taken, iovector::push_back_more never '
        'iterates (the allocator returns the whole block), RangeLock set loops run at most 2 rounds',
        'memory-safety checks of CBMC are enabled only in the *_memchecks job (they multiply the formula); every other job relies on the explicit range CHECKs in the harness',
        'compiled with -fno-builtin-memset (member-wise zero-initialisation stays as stores); logging macros have empty bodies; NDEBUG build: assert() compiled out (as shipped)',
    ],
)
SRC = 'C17/h_store.cpp'
SH = ['libc.c', 'c17_rbtree.c', 'sync_seq.c', 'c17_stubs.c']
# ir2c: ::malloc / ::free of the default IOAlloc -> harness stand-ins; symbolic-length memcpy -> rt/c17_stubs.c; methods that are not on
# the single-reader inline-refill path stay out of the translation (rt/c17_stubs.c gives each a body that reports being reached)
IR2C = ['--map', '^@malloc$=verif_c17_malloc', '--map', '^@free$=verif_c17_free', '--memcpy-n', 'verif_c17_memcpy_n',
        '--stub', '^@_ZN7IStream(13readv_mutable|14writev_mutable)E',
        '--stub', '^@_ZN6photon2fs11ICacheStore(18do_preadv2_mutable|11do_pwritev2|19do_pwritev2_mutable)E',
        '--stub', '^@_ZN6photon2fs11ICacheStore12async_refillEPv$', '--stub', '^@_ZN(6photon2fs11ICacheStore|5Store|7SrcFile)D[02]Ev$']
# MEDIA_VIA_MUTABLE: the real ICacheStore::do_preadv2 is used and forwards to the harness's do_preadv2_mutable
IR2C_VIA_MUTABLE = IR2C      # same set: the default do_preadv2_mutable (forwards back to do_preadv2) is unused in both modes
CLANG = ['-fno-builtin-memset']       # keep member-wise zero-initialisation as stores (a memset over a member block is modelled byte-wise by the solver)
# memory-safety checks of the standard set (vlib CBMC_BASE) for the jobs that run them
CHECKS = ['--pointer-overflow-check', '--undefined-shift-check', '--bounds-check', '--pointer-check', '--div-by-zero-check', '--pointer-primitive-check']


def us(cap, res, srcmax, niov=1, extra=()):
    """per-loop bounds: harness loops run over the source size; the loops of the code under test get the default (segments + 2).
    push_back_more: c17_alloc hands out the whole refill buffer in one piece, the loop body is never entered;
    preadv2 / try_refill_range `goto again` (retry after -EAGAIN): never taken by a single reader (no lock conflict, size unchanged).
    Each of these bounds is checked by an unwinding assertion."""
    n = max(srcmax, 4 * niov) + 1
    L = ['f__ZN8iovector14push_back_moreEm.0:1', 'verif_c17_memcpy_n.0:13', 'c17_base_of.0:9',
         'f__ZN6photon2fs11ICacheStore7preadv2EPK5iovecili.4:1', 'f__ZN6photon2fs11ICacheStore16try_refill_rangeElm.1:1']
    for f in ('f__ZL8src_readPK5iovecil', 'f__ZL10media_readPK5iovecil', 'f__ZL11media_writePK5iovecil', 'f__ZL9c17_allocPvN7IOAlloc9RangeSizeEPS_',
              'f__ZL10world_initv', 'f__ZL21check_media_invariantv', 'f__ZL19refill_guard_intactv', 'f_harness_read', 'f_harness_prefetch', 'f_harness_holequery'):
        L += ['%s.%d:%d' % (f, i, n) for i in range(16 if f.startswith('f_harness') else 8)]
    # the RangeLock set holds at most one element: its search / iteration loops need 2 rounds
    L += ['%s.%d:2' % (f, i) for f in ('f__ZN9RangeLock13try_lock_waitERmS0_', 'f__ZN9RangeLock6unlockEmm',
          'f__ZNSt8_Rb_treeIN9RangeLock5RangeES1_St9_IdentityIS1_ESt4lessIS1_ESaIS1_EE29_M_get_insert_hint_unique_posESt23_Rb_tree_const_iteratorIS1_ERKS1_') for i in range(4)]
    return L + list(extra)


def rjob(name, niov=1, srcmax=8, faults=0, nreads=1, runit=4, known=None, cap=(4, 0), rm=False, via_mutable=False, memchecks=False,
         entry='harness_read', timeout=900, mem_gb=8, desc='', offs=None, segmax=4):
    D = ['SEGMAX=%d' % segmax, 'NIOV=%d' % niov, 'SRCMAX=%d' % srcmax, 'FAULTS=%d' % faults, 'NREADS=%d' % nreads, 'RUNIT=%d' % runit]
    if cap != (32, 4): D += ['IOV_CAPACITY=%d' % cap[0], 'IOV_RESERVE=%d' % cap[1]]
    if known is not None: D.append('KNOWN=%d' % known)
    if rm: D.append('USE_RANGE_MODULE')
    if via_mutable: D.append('MEDIA_VIA_MUTABLE')
    if offs: D += ['OFFMIN=%d' % offs[0], 'OFFMAX=%d' % offs[1]]
    b = 'source size 1..%d, page 4, refill unit %d, %d read(s) of %d segment(s) x 0..%d bytes at offset %d..%d, %s, IOVector capacity %d%s%s' % (
        srcmax, runit, nreads, niov, segmax, offs[0] if offs else 0, offs[1] if offs else srcmax + 1, 'symbolic faults' if faults else 'no faults', cap[0],
        ', real RangeModule behind the hole query' if rm else '', ', CBMC memory-safety checks on' if memchecks else '')
    extra = ['inc.0:4', 'inc.1:4', 'dec.0:4', 'dec.1:4'] if rm else ['inc.0:2', 'inc.1:2', 'dec.0:2', 'dec.1:2']
    return Job(name, SRC, entry, defines=D, unwind=(5 if rm else max(niov, 2) + 2), unwindset=us(cap[0], cap[1], srcmax, niov, extra), shims=SH,
               ir2c=(IR2C_VIA_MUTABLE if via_mutable else IR2C), clang=CLANG,
               nochecks=True, cbmc=(CHECKS if memchecks else []), timeout=timeout, mem_gb=mem_gb, desc=desc, bounds=b)


def hjob(name, next_, vmax, remove=False, timeout=900, mem_gb=8):
    D = ['NEXT=%d' % next_, 'VMAX=%d' % vmax] + (['WITH_REMOVE'] if remove else [])
    return Job(name, 'C17/h_hole.cpp', 'harness_rangemodule', defines=D, unwind=next_ + 4, shims=['libc.c', 'rbtree.c'], timeout=timeout, mem_gb=mem_gb,
               desc='real RangeModule (addRange%s, queryRefillRange) + queryRefillRangeByMap alignment: hit => request covered, miss => refill range covers every uncovered byte' % (', removeRange' if remove else ''),
               bounds='%d symbolic addRange calls%s, offsets 0..%d, symbolic request and witness byte' % (next_, ' + 1 removeRange' if remove else '', vmax))


def jobs(tier):
    q = tier == 'quick'
    T = 900 if q else 3000
    J = [
        rjob('read_1seg', timeout=T, desc='one read, one segment: count and bytes equal the source, media invariant, pages cached, nothing left locked / allocated'),
        rjob('read_1seg_3pages', srcmax=12, timeout=T, desc='same, three pages'),
        rjob('read_1seg_span3', srcmax=12, segmax=8, timeout=T, desc='one read, one segment of 0..8 bytes over three pages: the request can span a cached head, an uncached page and a cached tail'),
        rjob('read_1seg_faults', faults=1, timeout=T, desc='one read, one segment, symbolic source / media / query / allocator / fstat faults: -1 or a correct prefix, never wrong bytes'),
        rjob('read_2seg_short', niov=2, segmax=2, timeout=T, desc='one read, two segments of 0..2 bytes'),
        rjob('prefetch', entry='harness_prefetch', timeout=T, desc='prefetch -> do_prefetch -> try_refill_range -> do_refill_range without a caller buffer'),
        rjob('holequery_bitmap', entry='harness_holequery', srcmax=12, timeout=T, desc='hole-query lemma for the harness store (page bitmap)'),
        hjob('rangemodule_2ext', 2, 31, timeout=T),
    ]
    if q: return J
    J += [
        rjob('holequery_rangemodule', entry='harness_holequery', srcmax=12, rm=True, timeout=T, mem_gb=10, desc='hole-query lemma for the harness store over the real RangeModule'),
        rjob('read_2seg', niov=2, timeout=T, desc='one read, two segments of 0..4 bytes'),
        rjob('read_2seg_3pages', niov=2, srcmax=12, timeout=T, desc='one read, two segments, three pages'),
        rjob('read_3seg_short', niov=3, segmax=2, timeout=T, mem_gb=12, desc='one read, three segments of 0..2 bytes (three segments x 0..4 bytes over three pages did not finish in 3000 s)'),
        rjob('read_2seg_faults', niov=2, faults=1, timeout=T, desc='one read, two segments, symbolic faults'),
        rjob('read_1seg_unit8', srcmax=12, runit=8, timeout=T, desc='refill unit 8 = two pages (refill ranges include cached pages and reach beyond end of file)'),
        rjob('read_2reads_1seg', nreads=2, timeout=T, mem_gb=12, desc='two reads in sequence: the second sees the media left by the first (fully cached second read returns the same bytes)'),
        # two reads *with* faults (33 min, 10 GB) was dropped: every single-read job starts from an arbitrary state that satisfies the media invariant and proves the invariant
        # again after the read - faulted or not - so sequences of any length follow by induction; read_2reads_1seg confirms it directly for the fault-free case
        rjob('read_1seg_memchecks', memchecks=True, timeout=T, mem_gb=16, desc='one read, one segment, with CBMC\'s pointer / bounds / overflow checks'),
        rjob('read_1seg_cap32', cap=(32, 4), timeout=T, mem_gb=16, desc='one read, one segment, IOVector as shipped (capacity 32, 4 reserved in front)'),
        rjob('read_1seg_via_mutable', via_mutable=True, timeout=T, desc='media read through the real ICacheStore::do_preadv2 (SmartCloneIOV) -> do_preadv2_mutable'),
        # a whole read with the real RangeModule behind the store ran out of memory at 16 GB (std::map over the general BST stand-ins inside the read path): the RangeModule is
        # covered by holequery_rangemodule (the store's query over it, every subset of 3 pages) and the rangemodule_* lemmas
        rjob('prefetch_3pages_faults', entry='harness_prefetch', srcmax=12, faults=1, timeout=T, desc='prefetch with faults, three pages'),
        hjob('rangemodule_3ext', 3, 15, timeout=T, mem_gb=16),
        # a removeRange variant aborted (memory) even with one extent; removeRange is only reached through evict(), which is outside the encoded scope
    ]
    return J
