from vlib import Job

META = dict(
    bounds='TODO',
    outside='TODO',
    assumptions=['TODO'],
)
SRC = 'C17/h_store.cpp'
SH = ['libc.c', 'rbtree.c', 'sync_seq.c', 'c17_stubs.c']
MAP = ['--map', '^@malloc$=verif_c17_malloc', '--map', '^@free$=verif_c17_free']


def jobs(tier):
    q = tier == 'quick'
    J = []
    J.append(Job('read_v2', SRC, 'harness_read', defines=['NIOV=2', 'FAULTS=0'], unwind=14, unwindset=['verif_memcpy_n.0:50'], shims=SH, ir2c=MAP, timeout=300, mem_gb=8,
                 desc='one read', bounds=''))
    J.append(Job('hole_rangemodule', 'C17/h_hole.cpp', 'harness_rangemodule', defines=['NEXT=2'], unwind=6, shims=['libc.c', 'rbtree.c'], timeout=300, mem_gb=6, desc='RangeModule hole query', bounds=''))
    return J
