from vlib import Job

META = dict(
    bounds='TODO',
    outside='TODO',
    assumptions=['TODO'],
)
SRC = 'C17/h_store.cpp'
SH = ['libc.c', 'c17_rbtree.c', 'sync_seq.c', 'c17_stubs.c']
# ir2c: ::malloc / ::free of the default IOAlloc -> harness stand-ins; symbolic-length memcpy -> rt/c17_stubs.c; methods that are not on
# the single-reader inline-refill path stay out of the translation (rt/c17_stubs.c gives each a body that reports being reached)
IR2C = ['--no-devirt', '--map', '^@malloc$=verif_c17_malloc', '--map', '^@free$=verif_c17_free', '--memcpy-n', 'verif_c17_memcpy_n',
        '--stub', '^@_ZN7IStream(13readv_mutable|14writev_mutable)E',
        '--stub', '^@_ZN6photon2fs11ICacheStore(18do_preadv2_mutable|11do_pwritev2|19do_pwritev2_mutable)E',
        '--stub', '^@_ZN6photon2fs11ICacheStore12async_refillEPv$', '--stub', '^@_ZN(6photon2fs11ICacheStore|5Store|7SrcFile)D[02]Ev$']
CLANG = ['-fno-builtin-memset']       # keep member-wise zero-initialisation as stores (a memset over a member block is modelled byte-wise by the solver)


def us(cap, res, srcmax, extra=()):
    """per-loop bounds: harness loops run over the source size; the loops of the code under test get the default (segments + 2).
    push_back_more: c17_alloc hands out the whole refill buffer in one piece, the loop body is never entered;
    preadv2 / try_refill_range `goto again` (retry after -EAGAIN): never taken by a single reader (no lock conflict, size unchanged).
    Each of these bounds is checked by an unwinding assertion."""
    n = srcmax + 1
    L = ['f__ZN8iovector14push_back_moreEm.0:1', 'verif_c17_memcpy_n.0:13', 'c17_base_of.0:9',
         'f__ZN6photon2fs11ICacheStore7preadv2EPK5iovecili.4:1', 'f__ZN6photon2fs11ICacheStore16try_refill_rangeElm.1:1']
    for f in ('f__ZL8src_readPK5iovecil', 'f__ZL10media_readPK5iovecil', 'f__ZL11media_writePK5iovecil', 'f__ZL9c17_allocPvN7IOAlloc9RangeSizeEPS_',
              'f__ZL10world_initv', 'f__ZL21check_media_invariantv', 'f__ZL19refill_guard_intactv', 'f_harness_read', 'f_harness_prefetch'):
        L += ['%s.%d:%d' % (f, i, n) for i in range(16 if f.startswith('f_harness') else 8)]
    # the RangeLock set holds at most one element: its search / iteration loops need 2 rounds
    L += ['%s.%d:2' % (f, i) for f in ('f__ZN9RangeLock13try_lock_waitERmS0_', 'f__ZN9RangeLock6unlockEmm', 'inc', 'dec',
          'f__ZNSt8_Rb_treeIN9RangeLock5RangeES1_St9_IdentityIS1_ESt4lessIS1_ESaIS1_EE29_M_get_insert_hint_unique_posESt23_Rb_tree_const_iteratorIS1_ERKS1_') for i in range(4)]
    return L + list(extra)


# memory-safety checks of the standard set (vlib CBMC_BASE) for the jobs that run them
CHECKS = ['--pointer-overflow-check', '--undefined-shift-check', '--bounds-check', '--pointer-check', '--div-by-zero-check', '--pointer-primitive-check']


def rjob(name, niov=1, srcmax=8, faults=0, nreads=1, runit=4, known=None, cap=(4, 0), rm=False, via_mutable=False, memchecks=False,
         entry='harness_read', timeout=900, mem_gb=8, desc=''):
    D = ['NIOV=%d' % niov, 'SRCMAX=%d' % srcmax, 'FAULTS=%d' % faults, 'NREADS=%d' % nreads, 'RUNIT=%d' % runit]
    if cap != (32, 4): D += ['IOV_CAPACITY=%d' % cap[0], 'IOV_RESERVE=%d' % cap[1]]
    if known is not None: D.append('KNOWN=%d' % known)
    if rm: D.append('USE_RANGE_MODULE')
    if via_mutable: D.append('MEDIA_VIA_MUTABLE')
    b = 'source size 1..%d, page 4, refill unit %d, %d read(s) of %d segment(s) x 0..4 bytes at offset 0..%d, %s, IOVector capacity %d%s' % (
        srcmax, runit, nreads, niov, srcmax + 1, 'symbolic faults' if faults else 'no faults', cap[0], ', memory-safety checks' if memchecks else '')
    return Job(name, SRC, entry, defines=D, unwind=max(niov, 2) + 2, unwindset=us(cap[0], cap[1], srcmax), shims=SH, ir2c=IR2C, clang=CLANG,
               nochecks=True, cbmc=(CHECKS if memchecks else []), timeout=timeout, mem_gb=mem_gb, desc=desc, bounds=b)


def jobs(tier):
    q = tier == 'quick'
    J = []
    J.append(rjob('read_v1', desc='one read, one segment'))
    J.append(rjob('read_v2', niov=2, desc='one read, two segments'))
    J.append(rjob('read_v2_known', niov=2, known=1, desc='one read, two segments'))
    J.append(rjob('read_v2_unknown', niov=2, known=0, desc='one read, two segments'))
    J.append(rjob('read_v3_known', niov=3, known=1, desc='one read, 3 segments'))
    J.append(rjob('read_v1_s12', srcmax=12, desc='one read, one segment, 3 pages'))
    J.append(rjob('read_v1_faults', faults=1, desc='one read, one segment, faults'))
    J.append(rjob('prefetch', entry='harness_prefetch', desc='prefetch -> try_refill_range'))
    J.append(Job('hole_rangemodule', 'C17/h_hole.cpp', 'harness_rangemodule', defines=['NEXT=2'], unwind=6, shims=['libc.c', 'rbtree.c'], timeout=300, mem_gb=6, desc='RangeModule hole query', bounds=''))
    return J
