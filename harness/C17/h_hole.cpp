// C17 hole-query lemmas: the answer of a hole query is safe for the read path of ICacheStore.
//   "fully cached" ({0,0})  =>  every byte of the request is covered by a present extent;
//   otherwise the returned refill range covers every byte of the request that is not covered (so that after refilling exactly
//   that range the whole request is covered).
// Variants: (RM)  the real RangeModule (fs/cache/full_file_cache/range_module.h): state built by the real addRange / removeRange from
//                 symbolic ranges, query by the real queryRefillRange followed by the alignment arithmetic of
//                 FileCacheStore::queryRefillRangeByMap (align_down / align_up of photon/common/utility.h);
//           (BM)  the per-page bitmap query used by the store harness (h_store.cpp, hole_query) - same code, included from there.
// The covered-set reference is stated over the *input* ranges (a byte is covered iff some added range contains it and no later
// removed range does), not over the interval map.
#include "verif_h.h"
#include "nolog.h"
#include <photon/common/utility.h>
#include "fs/cache/full_file_cache/range_module.h"
using namespace photon::fs;

#ifndef NEXT
#define NEXT 3           // number of addRange calls (present extents)
#endif
#ifndef UNIT
#define UNIT 4           // refill unit of the alignment step
#endif
#ifndef VMAX
#define VMAX 0           // 0: full 63-bit offsets; otherwise offsets <= VMAX
#endif

static Raw<RangeModule> RMs;
static uint64_t A[NEXT], B[NEXT];          // added ranges [A,B)
static uint64_t RA, RB; static bool removed;  // one optional removeRange [RA,RB) after the additions

static inline uint64_t pick()
{
    uint64_t v = nondet_u64();
#if VMAX
    ASSUME(v <= VMAX);
#else
    ASSUME(v <= (uint64_t)INT64_MAX - 2 * UNIT);      // off_t, and room for align_up
#endif
    return v;
}
static bool covered(uint64_t x)
{
    bool c = false;
    for (int i = 0; i < NEXT; i++) if (A[i] <= x && x < B[i]) c = true;
    if (removed && RA <= x && x < RB) c = false;
    return c;
}

extern "C" void harness_rangemodule()
{
    RangeModule& rm = *new (&RMs.v) RangeModule;
    for (int i = 0; i < NEXT; i++) {
        A[i] = pick(); B[i] = pick();          // empty and reversed ranges included (addRange ignores them)
        rm.addRange(A[i], B[i]);
        if (A[i] >= B[i]) { A[i] = 0; B[i] = 0; }
    }
#ifdef WITH_REMOVE
    removed = true; RA = pick(); RB = pick();
    rm.removeRange(RA, RB);
    if (RA >= RB) removed = false;
#endif
    const uint64_t l = pick(), r = pick();     // the request [l, r)
    ASSUME(l <= r);
    std::pair<off_t, off_t> hole = rm.queryRefillRange(l, r);
    const uint64_t x = pick();                 // an arbitrary byte of the request
    ASSUME(l <= x && x < r);
    if (hole.first == 0 && hole.second == 0) {
        CHECK(covered(x), "RangeModule: a fully-cached answer means every byte of the request is covered");
        WITNESS("RangeModule: request fully covered");
    } else {
        CHECK(hole.first >= 0 && hole.first < hole.second, "RangeModule: a hole is a non-empty range");
        CHECK((uint64_t)hole.first >= l && (uint64_t)hole.second <= r, "RangeModule: the hole lies inside the request");
        CHECK(covered(x) || ((uint64_t)hole.first <= x && x < (uint64_t)hole.second), "RangeModule: every uncovered byte of the request lies in the returned hole");
        CHECK(!covered(hole.first) && !covered(hole.second - 1), "RangeModule: both ends of the hole are uncovered bytes (the hole is tight)");
        // FileCacheStore::queryRefillRangeByMap
        uint64_t left = align_down(hole.first, UNIT), right = align_up(hole.second, UNIT);
        std::pair<off_t, size_t> q(left, right - left);
        CHECK(!(q.first == 0 && q.second == 0), "aligned refill range is not mistaken for a hit");
        CHECK(covered(x) || ((uint64_t)q.first <= x && x - (uint64_t)q.first < q.second), "every uncovered byte of the request lies in the aligned refill range");
        CHECK((uint64_t)q.first % UNIT == 0 && q.second % UNIT == 0 && (uint64_t)q.first + UNIT > (uint64_t)hole.first && (uint64_t)q.first + q.second < (uint64_t)hole.second + UNIT,
              "the refill range is the hole extended to refill-unit boundaries, by less than one unit on either side");
        if (covered(x)) WITNESS("RangeModule: covered byte inside a partly cached request");
        if ((uint64_t)hole.first > l && (uint64_t)hole.second < r) WITNESS("RangeModule: hole strictly inside the request");
        if (!covered(x) && covered(l) && covered(r - 1)) WITNESS("RangeModule: request cached at both ends");
    }
}
