// C17 (single-reader data path): a read through the cache store returns exactly the source's bytes and byte count, whether the
// range is cached, partly cached or absent, and never reads the source outside [0, size).
// Real code: fs/cache/store.cpp included textually (ICacheStore::preadv2, try_preadv2, do_preadv2, do_refill_range,
// try_refill_range via prefetch/do_prefetch, tryget_size, open_src_file), common/range-lock.h (RangeLock over the std::set
// stand-ins of rt/rbtree.c), common/iovector.h + iovector.cpp (IOVector, iovector_view), common/io-alloc.h (IOAlloc callbacks).
// Harness parts (see jobs.py META): Store (subclass of ICacheStore supplying the pure virtuals over a byte-array "media" and a
// per-page present bitmap or the real RangeModule), SrcFile (IFile over a byte-array source with symbolic faults), the IOAlloc
// handed to the store (exact-size static blocks) and stand-ins for ::malloc/::free (typed iovec arrays for IOVector::slice).
#include "verif_h.h"
#include "nolog.h"
#include <stdlib.h>
#include <string.h>
#include <sys/stat.h>
#include <sys/uio.h>
#define protected public
#include <photon/common/range-lock.h>          // m_index is inspected after each read (no range left locked)
#undef protected
#ifdef IOV_CAPACITY
// the IOVector typedef (IOVectorEntity<32, 4>) is instantiated with a smaller capacity; the class template and all of its code are the real ones
#define IOVector IOVector_as_shipped
#include <photon/common/iovector.h>
#undef IOVector
typedef IOVectorEntity<IOV_CAPACITY, IOV_RESERVE> IOVector;
#endif
#include "common/iovector.cpp"
#include "fs/cache/store.cpp"
#ifdef USE_RANGE_MODULE
#include "fs/cache/full_file_cache/range_module.h"
#endif
using namespace photon::fs;

#ifndef SRCMAX
#define SRCMAX 12        // largest source size
#endif
#define PAGE 4           // page_size_ of the store = granularity of the present bitmap
#ifndef RUNIT
#define RUNIT 4          // refill unit: the hole query aligns the refill range to it (4 or 8)
#endif
#define NPAGE ((SRCMAX + PAGE - 1) / PAGE)
#ifndef NIOV
#define NIOV 2           // the request has exactly NIOV segments (each may be empty)
#endif
#ifndef SEGMAX
#define SEGMAX 4         // each of 0..SEGMAX bytes
#endif
#ifndef NREADS
#define NREADS 1
#endif
#ifndef FAULTS
#define FAULTS 0         // 1: source / media / hole-query / allocator faults are symbolic choices
#endif
#ifndef OFFMAX
#define OFFMAX (SRCMAX + 1)   // read offsets 0..OFFMAX (beyond end of file included)
#endif
#define MAXV (NIOV > 2 ? NIOV : 2)          // segments of any vector handed to source / media
#define MAXSEG (SRCMAX > SEGMAX ? SRCMAX : SEGMAX)

// ------------------------------------------------------------------------------------------------------------------
// World state.  Byte arrays live outside the objects that hold vtable pointers (see HARNESS_GUIDE / C16).
static uint8_t SRC[SRCMAX]; static uint64_t SIZE;        // the source file: content and size (fixed during the run)
static uint8_t MEDIA[SRCMAX];                            // the cache media bytes
static bool PRESENT[NPAGE];                              // page p present: media bytes [4p, min(4p+4, SIZE)) are valid
static int n_fault;                                      // faults injected during the current operation
static int n_src_reads, n_media_reads, n_media_writes, n_alloc, n_free, n_malloc, n_mfree;

#ifdef EXPERIMENT
extern "C" { void verif_probe1(bool); void verif_probe2(bool); void verif_probe3(bool); void verif_probe4(bool); void verif_probe5(bool); void verif_probe6(bool); void verif_probe7(bool); void verif_probe8(bool); void verif_probe9(bool); }
static bool probe_pool_null(); static bool probe_vptr(); static bool probe_srcfs_null(); static bool probe_srcfile();
#define PROBES(a,b,c) verif_probe##a(probe_pool_null()); verif_probe##b(probe_vptr()); verif_probe##c(probe_srcfs_null());
#else
#define PROBES(a,b,c)
#endif
static inline uint64_t mn(uint64_t a, uint64_t b) { return a < b ? a : b; }
static inline uint64_t page_end(uint64_t p) { return mn(p * PAGE + PAGE, SIZE); }

static inline uint64_t vec_total(const iovec* iov, int iovcnt)
{
    uint64_t t = 0;
    for (int i = 0; i < MAXV; i++) { if (i >= iovcnt) break; t += iov[i].iov_len; }
    return t;
}

// outcome of one source / media transfer of `total` bytes: `total` (complete), a shorter count, or -1
static inline int64_t pick_outcome(uint64_t total)
{
#if FAULTS
    uint8_t mode = nondet_u8(); ASSUME(mode <= 2);
    if (mode == 1) { n_fault++; return -1; }
    if (mode == 2) { uint8_t k = nondet_u8(); ASSUME(k < total); n_fault++; return k; }
#endif
    return (int64_t)total;
}

// ---- source file --------------------------------------------------------------------------------------------------
NOINL static ssize_t src_read(const iovec* iov, int iovcnt, off_t offset)
{
    n_src_reads++;
    PROBES(4,5,6)
#ifdef EXPERIMENT
    verif_probe7(probe_srcfile());
#endif
    CHECK(iovcnt >= 0 && iovcnt <= MAXV, "harness bound: a source read has at most MAXV segments");
    ASSUME(iovcnt >= 0 && iovcnt <= MAXV);
    uint64_t total = vec_total(iov, iovcnt);
    CHECK(offset >= 0 && (uint64_t)offset <= SIZE && total <= SIZE - (uint64_t)offset, "every source read lies inside [0, size)");
    ASSUME(offset >= 0 && (uint64_t)offset <= SIZE && total <= SIZE - (uint64_t)offset);
    int64_t lim = pick_outcome(total);
    if (lim < 0) return -1;
    uint64_t pos = 0;
    for (int i = 0; i < MAXV; i++) {
        if (i >= iovcnt) break;
        CHECK(iov[i].iov_len <= MAXSEG, "harness bound: segment length");
        for (uint64_t k = 0; k < MAXSEG; k++) {
            if (k >= iov[i].iov_len) break;
            if (pos < (uint64_t)lim) ((uint8_t*)iov[i].iov_base)[k] = SRC[offset + pos];
            pos++;
        }
    }
    return lim;
}
struct SrcFile : public IFile {
    ssize_t pread(void* buf, size_t count, off_t offset) override { iovec v{buf, count}; return src_read(&v, 1, offset); }
    ssize_t preadv(const struct iovec* iov, int iovcnt, off_t offset) override { return src_read(iov, iovcnt, offset); }
    ssize_t preadv_mutable(struct iovec* iov, int n, off_t off) override { return src_read(iov, n, off); }
    ssize_t preadv2(const struct iovec* iov, int n, off_t off, int) override { return src_read(iov, n, off); }
    ssize_t preadv2_mutable(struct iovec* iov, int n, off_t off, int) override { return src_read(iov, n, off); }
    int fstat(struct stat* st) override
    {
#if FAULTS
        if (nondet_bool()) { n_fault++; return -1; }
#endif
        st->st_size = SIZE; return 0;
    }
    // not used by the cache read path
    ssize_t pwrite(const void*, size_t, off_t) override { return -1; }
    ssize_t pwritev(const struct iovec*, int, off_t) override { return -1; }
    ssize_t pwritev_mutable(struct iovec*, int, off_t) override { return -1; }
    ssize_t pwritev2(const struct iovec*, int, off_t, int) override { return -1; }
    ssize_t pwritev2_mutable(struct iovec*, int, off_t, int) override { return -1; }
    int ftruncate(off_t) override { return -1; }
    IFileSystem* filesystem() override { return nullptr; }
    int close() override { return 0; }
    ssize_t read(void*, size_t) override { return -1; }
    ssize_t readv(const struct iovec*, int) override { return -1; }
    ssize_t write(const void*, size_t) override { return -1; }
    ssize_t writev(const struct iovec*, int) override { return -1; }
    off_t lseek(off_t, int) override { return -1; }
    int fsync() override { return 0; }
    int fdatasync() override { return 0; }
    int fchmod(mode_t) override { return 0; }
    int fchown(uid_t, gid_t) override { return 0; }
};

// ---- what is cached -----------------------------------------------------------------------------------------------
#ifdef USE_RANGE_MODULE
static Raw<RangeModule> RMs;
#endif
static inline uint64_t align_dn(uint64_t x, uint64_t a) { return x / a * a; }
static inline uint64_t align_upw(uint64_t x, uint64_t a) { return (x + a - 1) / a * a; }

// the hole query of the store: outer hull of the missing pages that intersect the request, aligned to the refill unit
NOINL static std::pair<off_t, size_t> hole_query(off_t offset, size_t size)
{
    CHECK(offset >= 0 && (uint64_t)offset + size <= SIZE, "hole query lies inside the source file (documented precondition of queryRefillRange)");
    ASSUME(offset >= 0 && (uint64_t)offset + size <= SIZE);
#if FAULTS
    if (nondet_bool()) { n_fault++; return std::make_pair((off_t)-1, (size_t)0); }      // e.g. fiemap failed
#endif
#ifdef USE_RANGE_MODULE
    // the arithmetic of FileCacheStore::queryRefillRangeByMap over the real RangeModule
    std::pair<off_t, off_t> hole = RMs.v.queryRefillRange(offset, offset + size);
    if (hole.first == 0 && hole.second == 0) return std::make_pair((off_t)0, (size_t)0);
    uint64_t left = align_dn(hole.first, RUNIT), right = align_upw(hole.second, RUNIT);
    return std::make_pair((off_t)left, (size_t)(right - left));
#else
    if (size == 0) return std::make_pair((off_t)0, (size_t)0);
    int first = -1, last = -1;
    for (int p = 0; p < NPAGE; p++) {
        bool overlaps = (uint64_t)p * PAGE < (uint64_t)offset + size && (uint64_t)offset < (uint64_t)p * PAGE + PAGE;
        if (overlaps && !PRESENT[p]) { if (first < 0) first = p; last = p; }
    }
    if (first < 0) return std::make_pair((off_t)0, (size_t)0);
    uint64_t left = align_dn((uint64_t)first * PAGE, RUNIT), right = align_upw((uint64_t)(last + 1) * PAGE, RUNIT);
    return std::make_pair((off_t)left, (size_t)(right - left));
#endif
}

NOINL static ssize_t media_read(const iovec* iov, int iovcnt, off_t offset)
{
    n_media_reads++;
    CHECK(iovcnt >= 0 && iovcnt <= MAXV, "harness bound: a media read has at most MAXV segments");
    ASSUME(iovcnt >= 0 && iovcnt <= MAXV);
    uint64_t total = vec_total(iov, iovcnt);
    CHECK(offset >= 0 && (uint64_t)offset <= SIZE && total <= SIZE - (uint64_t)offset, "every media read lies inside [0, size)");
    ASSUME(offset >= 0 && (uint64_t)offset <= SIZE && total <= SIZE - (uint64_t)offset);
    int64_t lim = pick_outcome(total);
    if (lim < 0) return -1;
    uint64_t pos = 0;
    for (int i = 0; i < MAXV; i++) {
        if (i >= iovcnt) break;
        CHECK(iov[i].iov_len <= MAXSEG, "harness bound: segment length");
        for (uint64_t k = 0; k < MAXSEG; k++) {
            if (k >= iov[i].iov_len) break;
            if (pos < (uint64_t)lim) {
                CHECK(PRESENT[(offset + pos) / PAGE], "media is read only where it is marked present");
                ((uint8_t*)iov[i].iov_base)[k] = MEDIA[offset + pos];
            }
            pos++;
        }
    }
    return lim;
}
NOINL static ssize_t media_write(const iovec* iov, int iovcnt, off_t offset)
{
    n_media_writes++;
    CHECK(iovcnt >= 0 && iovcnt <= MAXV, "harness bound: a media write has at most MAXV segments");
    ASSUME(iovcnt >= 0 && iovcnt <= MAXV);
    uint64_t total = vec_total(iov, iovcnt);
    CHECK(offset >= 0 && (uint64_t)offset <= SIZE && total <= SIZE - (uint64_t)offset, "every media write lies inside [0, size)");
    ASSUME(offset >= 0 && (uint64_t)offset <= SIZE && total <= SIZE - (uint64_t)offset);
    int64_t lim = pick_outcome(total);
    if (lim < 0) return -1;
    uint64_t pos = 0;
    for (int i = 0; i < MAXV; i++) {
        if (i >= iovcnt) break;
        CHECK(iov[i].iov_len <= MAXSEG, "harness bound: segment length");
        for (uint64_t k = 0; k < MAXSEG; k++) {
            if (k >= iov[i].iov_len) break;
            if (pos < (uint64_t)lim) {
                uint8_t x = ((const uint8_t*)iov[i].iov_base)[k];
                CHECK(x == SRC[offset + pos], "only source bytes are written to the media, at their own offset");
                MEDIA[offset + pos] = x;
            }
            pos++;
        }
    }
    // what became present: every page whose bytes inside the file were all written by this request
    for (int p = 0; p < NPAGE; p++)
        if ((uint64_t)p * PAGE < SIZE && (uint64_t)offset <= (uint64_t)p * PAGE && page_end(p) <= (uint64_t)offset + (uint64_t)lim) PRESENT[p] = true;
#ifdef USE_RANGE_MODULE
    if (lim > 0) RMs.v.addRange(offset, offset + lim);          // FileCacheStore::addFilledRange
#endif
    return lim;
}

struct Store : public ICacheStore {
    std::pair<off_t, size_t> queryRefillRange(off_t offset, size_t size) override { return hole_query(offset, size); }
#ifdef MEDIA_DIRECT
    // as FileCacheStore does: the const-iovec variants are overridden
    ssize_t do_preadv2(const struct iovec* iov, int iovcnt, off_t offset, int) override { return media_read(iov, iovcnt, offset); }
#else
    // the real ICacheStore::do_preadv2 (SmartCloneIOV copy) forwards here
    ssize_t do_preadv2_mutable(struct iovec* iov, int iovcnt, off_t offset, int) override { return media_read(iov, iovcnt, offset); }
#endif
    ssize_t do_pwritev2(const struct iovec* iov, int iovcnt, off_t offset, int) override { return media_write(iov, iovcnt, offset); }
    int set_quota(size_t) override { return -1; }
    int stat(CacheStat*) override { return -1; }
    int evict(off_t offset, size_t count, int) override
    {
        // truncate / punch: the pages touched are no longer present
        for (int p = 0; p < NPAGE; p++) {
            uint64_t b = (uint64_t)p * PAGE, e = b + PAGE;
            if (e > (uint64_t)offset && (count == (size_t)-1 || b < (uint64_t)offset + count)) PRESENT[p] = false;
        }
#ifdef USE_RANGE_MODULE
        if (count == (size_t)-1) RMs.v.removeFrom(offset); else RMs.v.removeRange(offset, offset + count);
#endif
        return 0;
    }
    int fstat(struct stat* buf) override { buf->st_size = actual_size_; return 0; }
    // The constructor's zero-initialisation of pool_ .. src_fs_ is compiled into one memset over the member block, which the
    // solver models byte-wise: afterwards it no longer knows that pool_ and src_fs_ are null pointers and explores the thread-pool
    // and open-source-file paths.  The members are therefore stored again one by one (each value is first checked to be what the
    // constructor left); the calls in between keep the compiler from merging the stores into a memset again.
#define RESTORE(member, value) CHECK(member == (value), "harness: member has its constructor value"); member = (value); __CPROVER_assume(true);
    void setup(IFile* src, IOAlloc* al, off_t known_size)
    {
        RESTORE(pool_, nullptr) RESTORE(open_flags_, 0) RESTORE(src_rwfile_, nullptr) RESTORE(recycle_file_, nullptr) RESTORE(src_fs_, nullptr)
        RESTORE(truncated_, false) RESTORE(recycled_, false) RESTORE(detached_, false) RESTORE(need_detach_, false)
        set_src_file(src); __CPROVER_assume(true);
        set_page_size(PAGE); set_allocator(al);
        actual_size_ = known_size; __CPROVER_assume(true);
        cached_size_ = known_size;
    }
    bool no_range_locked() { return range_lock_.m_index.empty(); }
    // rt/c17_rbtree.c: the std::set of this RangeLock holds at most one element (checked there)
    void* lock_set_header() { return (void*)range_lock_.m_index.end()._M_node; }
};

// ---- memory handed to the code under test --------------------------------------------------------------------------
// (1) the store's IOAlloc (refill buffer): separate static byte arrays of exactly the requested size, arbitrary content
// Every block handed out ends exactly at the end of its static object (an overrun is an out-of-bounds access); the bytes in front
// of the block are guard bytes that are checked to be unchanged afterwards.  (One object per block size - 12 objects - makes every
// store through an iov_base a 12-way case split in the solver's symbolic execution.)
static uint8_t RB[SRCMAX], RB_guard[SRCMAX];
static inline uint8_t* refill_block(int n) { return RB + (SRCMAX - n); }
static void* live_refill; static int refill_len;
static int c17_alloc(void*, IOAlloc::RangeSize size, void** ptr)
{
    CHECK(size.min >= 1 && size.max >= size.min && size.max <= SRCMAX, "refill buffer request is positive and no larger than the source file");
    ASSUME(size.min >= 1 && size.max >= size.min && size.max <= SRCMAX);
    CHECK(live_refill == nullptr, "harness bound: one refill buffer is live at a time");
    PROBES(1,2,3)
#ifdef EXPERIMENT
    verif_probe9(size.max == 2);
#endif
#if FAULTS
    if (nondet_bool()) { n_fault++; *ptr = nullptr; return -1; }
#endif
    uint8_t* p = refill_block(size.max);
    for (int i = 0; i < SRCMAX; i++) { uint8_t x = nondet_u8(); RB[i] = x; RB_guard[i] = x; }      // fresh memory has arbitrary content
    refill_len = size.max;
    *ptr = p; live_refill = p; n_alloc++;
    return size.max;
}
static int c17_dealloc(void*, void* p)
{
    CHECK(p != nullptr && p == live_refill, "the refill buffer that was allocated is released");
    bool guard = true;
    for (int i = 0; i < SRCMAX; i++) if (i < SRCMAX - refill_len && RB[i] != RB_guard[i]) guard = false;
    CHECK(guard, "nothing is written in front of the refill buffer");
    live_refill = nullptr; n_free++;
    return 0;
}
// (2) ::malloc / ::free (ir2c --map): IOVector::slice asks the default IOAlloc of the `input` vector for an iovec array
static iovec TI[3];      // the block ends at the end of the array
static void* live_malloc;
extern "C" {
NOINL void* verif_c17_malloc(uint64_t n)
{
    n_malloc++;
    CHECK(n == 16 || n == 32 || (n == 48 && NIOV >= 3), "malloc is asked for an iovec array of 1..NIOV entries");
    ASSUME(n == 16 || n == 32 || n == 48);
    CHECK(live_malloc == nullptr, "harness bound: one malloc block is live at a time");
    void* p = TI + (3 - n / 16);
    live_malloc = p;
    return p;
}
NOINL void verif_c17_free(void* p)
{
    CHECK(p != nullptr && p == live_malloc, "free() is given the live malloc block");
    live_malloc = nullptr; n_mfree++;
}
}

extern "C" char* verif_c17_single_header;
// ---- objects --------------------------------------------------------------------------------------------------------
static Raw<SrcFile> srcS;
static Raw<Store> storeS;
static Raw<IOAlloc> allocS;
static Store* ST;

// user buffers: one static array per (read, segment); the segment ends at the end of the array, the bytes in front are guard bytes
static_assert(NIOV <= 3 && NREADS <= 2, "add user buffers");
#define UBSEL(k) static uint8_t UB_##k[SEGMAX]; static inline uint8_t* ub_##k(uint64_t n) { return UB_##k + (SEGMAX - n); }
UBSEL(0) UBSEL(1) UBSEL(2) UBSEL(3) UBSEL(4) UBSEL(5)
static inline uint8_t* ubuf(int k, uint64_t n) { return k == 0 ? ub_0(n) : k == 1 ? ub_1(n) : k == 2 ? ub_2(n) : k == 3 ? ub_3(n) : k == 4 ? ub_4(n) : ub_5(n); }

static void check_media_invariant()
{
    bool ok = true;
    for (uint64_t i = 0; i < SRCMAX; i++) if (i < SIZE && PRESENT[i / PAGE] && MEDIA[i] != SRC[i]) ok = false;
    CHECK(ok, "media bytes equal source bytes wherever the media is marked present");
#ifdef USE_RANGE_MODULE
    // bitmap and interval set agree: a page is present iff the real RangeModule reports its bytes covered
    for (int p = 0; p < NPAGE; p++) if ((uint64_t)p * PAGE < SIZE) {
        auto q = RMs.v.queryRefillRange(p * PAGE, page_end(p));
        CHECK(PRESENT[p] == (q.first == 0 && q.second == 0), "RangeModule covers exactly the pages that were completely written");
    }
#endif
}

static void world_init()
{
    new (&srcS.v) SrcFile;
    ST = new (&storeS.v) Store;
    new (&allocS.v) IOAlloc(IOAlloc::Allocator(nullptr, &c17_alloc), IOAlloc::Deallocator(nullptr, &c17_dealloc));
#ifdef USE_RANGE_MODULE
    new (&RMs.v) RangeModule;
#endif
    uint8_t s = nondet_u8(); ASSUME(s >= 1 && s <= SRCMAX);
    SIZE = s;
    for (int i = 0; i < SRCMAX; i++) SRC[i] = nondet_u8();
    // the store either knows the size (media file of the source's size exists, any subset of pages cached) or starts from an
    // empty media file (size 0: nothing cached; the size is fetched from the source by tryget_size on the first read)
    bool known = nondet_bool();
    for (int p = 0; p < NPAGE; p++) {
        bool pr = nondet_bool();
        PRESENT[p] = known && pr && (uint64_t)p * PAGE < SIZE;
#ifdef USE_RANGE_MODULE
        if (PRESENT[p]) RMs.v.addRange(p * PAGE, page_end(p));
#endif
    }
    for (int i = 0; i < SRCMAX; i++) { uint8_t g = nondet_u8(); MEDIA[i] = PRESENT[i / PAGE] ? SRC[i] : g; }
    ST->setup(&srcS.v, &allocS.v, known ? (off_t)SIZE : 0);
    verif_c17_single_header = (char*)ST->lock_set_header();
}

template<int RD> static inline __attribute__((always_inline)) void one_read()
{
    static iovec V[NIOV], V0[NIOV];
    uint8_t* seg[NIOV]; uint64_t slen[NIOV]; uint8_t before[NIOV][SEGMAX];
    uint8_t o8 = nondet_u8(); ASSUME(o8 <= OFFMAX);
    const uint64_t off = o8;
    uint64_t len = 0;
    for (int k = 0; k < NIOV; k++) {
        uint8_t l = nondet_u8(); ASSUME(l <= SEGMAX);
        slen[k] = l; len += l;
        seg[k] = ubuf(RD * NIOV + k, l);
        for (int i = 0; i < SEGMAX; i++) { uint8_t x = nondet_u8(); (seg[k] + l - SEGMAX)[i] = x; before[k][i] = x; }     // whole array, guard bytes included
        V[k].iov_base = seg[k]; V[k].iov_len = l; V0[k] = V[k];
    }
    bool pre[NPAGE]; for (int p = 0; p < NPAGE; p++) pre[p] = PRESENT[p];
    n_fault = 0; n_src_reads = 0; n_media_reads = 0; n_media_writes = 0;

    ssize_t r = ST->preadv2(V, NIOV, off, 0);

    const uint64_t want = off < SIZE ? mn(len, SIZE - off) : 0;
    if (n_fault == 0) CHECK(r == (ssize_t)want, "without an injected fault the read returns min(length, size - offset)");
    CHECK(r >= -1 && r <= (ssize_t)want, "a read returns -1 or a count that never exceeds what the source holds in the range");
    if (r < 0) CHECK(n_fault > 0, "a read fails only if a source / media fault was injected");
    bool same = true, untouched = true, vsame = true; uint64_t pos = 0;
    for (int k = 0; k < NIOV; k++) {
        if (!(V[k] == V0[k])) vsame = false;
        for (uint64_t i = 0; i < SEGMAX; i++) {
            if (i >= slen[k]) break;
            if (r >= 0 && pos < (uint64_t)r && seg[k][i] != SRC[off + pos]) same = false;
            if (pos >= want && seg[k][i] != before[k][SEGMAX - slen[k] + i]) untouched = false;
            pos++;
        }
    }
    CHECK(same, "the bytes delivered are the source's bytes of the range");
    for (int k = 0; k < NIOV; k++) for (uint64_t i = 0; i < SEGMAX; i++) if (i < SEGMAX - slen[k] && (seg[k] + slen[k] - SEGMAX)[i] != before[k][i]) untouched = false;
    CHECK(untouched, "buffer space beyond min(length, size - offset), and in front of each segment, is not written");
    CHECK(vsame, "the caller's iovec array is left unchanged");
    check_media_invariant();
    CHECK(ST->no_range_locked(), "no refill range stays locked after the read");
    CHECK(n_alloc == n_free && live_refill == nullptr && n_malloc == n_mfree, "temporary buffers are released");
    if (n_fault == 0 && want > 0) {
        bool filled = true;
        for (int p = 0; p < NPAGE; p++) if ((uint64_t)p * PAGE < off + want && off < (uint64_t)p * PAGE + PAGE && !PRESENT[p]) filled = false;
        CHECK(filled, "after a fault-free read every page of the range is cached");
    }
    bool kept = true; for (int p = 0; p < NPAGE; p++) if (pre[p] && !PRESENT[p]) kept = false;
    CHECK(kept, "a read never drops cached pages");

    // vacuity witnesses on the interesting paths
    if (RD == 0) {
        if (n_fault == 0 && n_src_reads == 0 && want > 0 && n_media_reads == 1) WITNESS("fully cached read served from media");
        if (n_fault == 0 && n_src_reads == 1 && n_media_writes == 1 && n_media_reads == 0 && want > 0) WITNESS("absent range: refilled and served from the refill buffer");
        if (n_fault == 0 && n_src_reads == 1 && n_media_reads == 1 && want > 1) WITNESS("partly cached range: refill plus media read of the remainder");
        if (n_fault == 0 && want < len && want > 0 && SIZE % PAGE != 0) WITNESS("read clipped at an unaligned end of file");
        if (off >= SIZE && len > 0) WITNESS("read at or beyond end of file");
        if (n_malloc == 1) WITNESS("refill covers the tail of the request (IOVector::slice)");
#if FAULTS
        if (r == -1) WITNESS("faulted read fails");
        if (n_fault > 0 && r == (ssize_t)want && want > 0) WITNESS("fault absorbed: full correct read");
        if (n_fault > 0 && r >= 0 && r < (ssize_t)want) WITNESS("fault: short but correct read");
#endif
    } else {
        if (n_fault == 0 && n_src_reads == 0 && want > 0) WITNESS("second read fully cached");
        if (n_fault == 0 && n_src_reads == 1 && want > 0) WITNESS("second read refills");
    }
}

extern "C" {
void harness_read()
{
    world_init();
    check_media_invariant();
    one_read<0>();
#if NREADS >= 2
    one_read<1>();
#endif
}

// try_refill_range through the public prefetch(): afterwards the whole (page-aligned, clipped) range is cached
void harness_prefetch()
{
    world_init();
    uint8_t o8 = nondet_u8(), c8 = nondet_u8();
    ASSUME(o8 <= OFFMAX && c8 <= SRCMAX + 2);
    n_fault = 0; n_src_reads = 0; n_media_writes = 0;
    ssize_t r = ST->prefetch(c8, o8, 0);
    uint64_t b = align_dn(o8, PAGE), e = align_upw((uint64_t)o8 + c8, PAGE);
    uint64_t want = b < SIZE ? mn(e, SIZE) - b : 0;
    if (n_fault == 0) {
        CHECK(r == (ssize_t)want, "without a fault prefetch reports the page-aligned range clipped to the file size");
        bool filled = true;
        for (int p = 0; p < NPAGE; p++) if ((uint64_t)p * PAGE < mn(e, SIZE) && b < (uint64_t)p * PAGE + PAGE && !PRESENT[p]) filled = false;
        CHECK(filled, "after a fault-free prefetch every page of the range is cached");
    } else CHECK(r >= -1 && r <= (ssize_t)want, "a faulted prefetch returns -1 or at most the range");
    if (r < 0) CHECK(n_fault > 0, "prefetch fails only if a fault was injected");
    check_media_invariant();
    CHECK(ST->no_range_locked(), "no refill range stays locked after the prefetch");
    CHECK(n_alloc == n_free && live_refill == nullptr, "temporary buffers are released");
    if (n_fault == 0 && n_src_reads == 1 && want > 4) WITNESS("prefetch refilled a multi-page range");
    if (n_fault == 0 && n_src_reads == 0 && want > 0) WITNESS("prefetch of a cached range reads nothing");
    if (o8 >= SIZE) WITNESS("prefetch beyond end of file");
}
}
#ifdef EXPERIMENT
struct PStore : public Store { bool pn() { return pool_ == nullptr; } bool sn() { return src_fs_ == nullptr; } bool sf() { return src_file_ == (IFile*)&srcS.v; } };
static bool probe_srcfile() { return ((PStore*)&storeS.v)->sf(); }
static bool probe_pool_null() { return ((PStore*)&storeS.v)->pn(); }
static bool probe_srcfs_null() { return ((PStore*)&storeS.v)->sn(); }
static Raw<Store> storeRef; static bool probe_vptr() { return *(void**)&storeS.v == *(void**)&storeRef.v; }
static bool probe_srcfile();
extern "C" void harness_exp()
{
    world_init();
#if EXPERIMENT == 1
    ICacheStore* s = ST;
    auto q = s->queryRefillRange(0, 1);
    CHECK(q.second <= 12, "exp");
#elif EXPERIMENT == 2
    static iovec V[1]; static uint8_t b[2];
    V[0].iov_base = b; V[0].iov_len = 2;
    ssize_t r = ST->preadv2(V, 1, 0, 0);
    CHECK(r <= 2, "exp");
#elif EXPERIMENT == 3
    static iovec V[1]; static uint8_t b[2];
    V[0].iov_base = b; V[0].iov_len = 2;
    ASSUME(SIZE >= 2);
    auto r = ST->try_preadv2(V, 1, 0, 0);
    CHECK(r.iov_sum == 2, "exp");
#elif EXPERIMENT == 4
    struct stat st;
    int r = srcS.v.fstat(&st);
    IFile* f = &srcS.v;
    r = f->fstat(&st);
    CHECK(r == 0, "exp");
#elif EXPERIMENT == 5
    ASSUME(ST->get_actual_size() != 0);
    new (&storeRef.v) Store;
    static iovec V[1]; static uint8_t b[2];
    V[0].iov_base = b; V[0].iov_len = 2;
    ssize_t r = ST->preadv2(V, 1, 0, 0);
    CHECK(r <= 2, "exp");
#elif EXPERIMENT == 6
    uint8_t n = nondet_u8(); ASSUME(n >= 1 && n <= 12);
    static Raw<IOVector> bufS;
    IOVector* buffer = new (&bufS.v) IOVector(allocS.v);
    size_t r = buffer->push_back(n);
    CHECK(r == n, "exp");
#endif
    WITNESS("exp");
}
#endif
