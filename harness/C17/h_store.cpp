// C17 (single-reader data path): a read through the cache store returns exactly the source's bytes and byte count, whether the
// range is cached, partly cached or absent, and never reads the source outside [0, size).
// Real code: fs/cache/store.cpp included textually (ICacheStore::preadv2, try_preadv2, do_preadv2, do_refill_range,
// try_refill_range via prefetch/do_prefetch, tryget_size, open_src_file, set_cached_size), common/range-lock.h (RangeLock; std::set
// header code over the stand-ins of rt/c17_rbtree.c), common/iovector.h + iovector.cpp (IOVector, iovector_view),
// common/io-alloc.h (IOAlloc callbacks), and - with -DUSE_RANGE_MODULE - fs/cache/full_file_cache/range_module.h.
// Harness parts (see jobs.py META): Store (subclass of ICacheStore supplying the pure virtuals over a byte-array "media" and a
// per-page present bitmap / the real RangeModule), SrcFile (IFile over a byte-array source with symbolic faults), the IOAlloc
// handed to the store and stand-ins for ::malloc/::free (typed iovec array for IOVector::slice).
#include "verif_h.h"
#include "nolog.h"
#include <stdlib.h>
#include <string.h>
#include <sys/stat.h>
#include <sys/uio.h>
#define protected public
#include <photon/common/range-lock.h>          // m_index is inspected after each read (no range left locked)
#undef protected
#ifdef IOV_CAPACITY
// The IOVector typedef (IOVectorEntity<32, 4> as shipped) is instantiated with a smaller capacity; the class template and all of its
// code are the real ones.  An IOVector is accessed at symbolic positions, which costs the solver in proportion to the object's size.
#define IOVector IOVector_as_shipped
#include <photon/common/iovector.h>
#undef IOVector
typedef IOVectorEntity<IOV_CAPACITY, IOV_RESERVE> IOVector;
#endif
#include "common/iovector.cpp"
#include "fs/cache/store.cpp"
#ifdef USE_RANGE_MODULE
#include "fs/cache/full_file_cache/range_module.h"
#endif
using namespace photon::fs;

#ifndef SRCMAX
#define SRCMAX 12        // largest source size
#endif
#define PAGE 4           // page_size_ of the store = granularity of the present bitmap
#ifndef RUNIT
#define RUNIT 4          // refill unit: the hole query aligns the refill range to it (4 or 8)
#endif
#define NPAGE ((SRCMAX + PAGE - 1) / PAGE)
#ifndef NIOV
#define NIOV 2           // the request has exactly NIOV segments (each may be empty)
#endif
#ifndef SEGMAX
#define SEGMAX 4         // each of 0..SEGMAX bytes
#endif
#ifndef NREADS
#define NREADS 1
#endif
#ifndef FAULTS
#define FAULTS 0         // 1: source / media / hole-query / allocator / fstat faults are symbolic choices
#endif
#ifndef OFFMAX
#define OFFMAX (SRCMAX + 1)   // read offsets OFFMIN..OFFMAX (beyond end of file included)
#endif
#ifndef OFFMIN
#define OFFMIN 0
#endif
#define MAXV (NIOV > 2 ? NIOV : 2)          // segments of any vector handed to source / media

// ------------------------------------------------------------------------------------------------------------------
// World state.  Byte arrays live outside the objects that hold vtable pointers (see HARNESS_GUIDE / C16).
static uint8_t SRC[SRCMAX]; static uint64_t SIZE;        // the source file: content and size (fixed during the run)
static uint8_t MEDIA[SRCMAX];                            // the cache media bytes
static bool PRESENT[NPAGE];                              // page p present: media bytes [4p, min(4p+4, SIZE)) are valid
static int n_fault;                                      // faults injected during the current operation
static int n_src_reads, n_media_reads, n_media_writes, n_alloc, n_free, n_malloc, n_mfree;

static inline uint64_t mn(uint64_t a, uint64_t b) { return a < b ? a : b; }
static inline uint64_t page_end(uint64_t p) { return mn(p * PAGE + PAGE, SIZE); }

// A vector handed to source / media, flattened: total length and the address of byte `pos`.
struct Flat { const iovec* iov; int cnt; uint64_t start[MAXV + 1]; };
static inline void flat_init(Flat& f, const iovec* iov, int iovcnt)
{
    f.iov = iov; f.cnt = iovcnt; uint64_t t = 0;
    for (int i = 0; i < MAXV; i++) { f.start[i] = t; if (i < iovcnt) t += iov[i].iov_len; }
    f.start[MAXV] = t;
}
static inline uint8_t* flat_at(const Flat& f, uint64_t pos)
{
    int s = 0;
    for (int i = 1; i < MAXV; i++) if (i < f.cnt && pos >= f.start[i]) s = i;
    return (uint8_t*)f.iov[s].iov_base + (pos - f.start[s]);
}
// Source and media move bytes to / from the buffers of the request: the caller's segments (UB_k) and the refill buffer (RB).  The
// transfer is written per buffer object (and reports any other target) instead of through the raw pointer: the solver's points-to
// sets for an iov_base read back from an IOVector also hold the IOVectors themselves, and a plain store through such a pointer is
// encoded as a possible update of every one of those objects.
extern "C" { bool __CPROVER_same_object(const void*, const void*); uint64_t __CPROVER_POINTER_OFFSET(const void*); }
static uint8_t RB[SRCMAX];
#define UBDEF(k) static uint8_t UB_##k[SEGMAX];
UBDEF(0) UBDEF(1) UBDEF(2) UBDEF(3) UBDEF(4) UBDEF(5)
static bool xfer_ok;
#define XB(A, n) if (__CPROVER_same_object(p, A)) { uint64_t o = __CPROVER_POINTER_OFFSET(p); if (o >= n) { xfer_ok = false; return 0; } if (wr) A[o] = x; return A[o]; }
static inline uint8_t buf_access(uint8_t* p, bool wr, uint8_t x)
{
    XB(RB, SRCMAX) XB(UB_0, SEGMAX)
#if NIOV * NREADS > 1
    XB(UB_1, SEGMAX)
#endif
#if NIOV * NREADS > 2
    XB(UB_2, SEGMAX)
#endif
#if NIOV * NREADS > 3
    XB(UB_3, SEGMAX)
#endif
#if NIOV * NREADS > 4
    XB(UB_4, SEGMAX) XB(UB_5, SEGMAX)
#endif
    xfer_ok = false; return 0;
}
static inline void put_byte(uint8_t* p, uint8_t x) { buf_access(p, true, x); }
static inline uint8_t get_byte(uint8_t* p) { return buf_access(p, false, 0); }

// outcome of one source / media transfer of `total` bytes: `total` (complete), a shorter count, or -1
static inline int64_t pick_outcome(uint64_t total)
{
#if FAULTS
    uint8_t mode = nondet_u8(); ASSUME(mode <= 2);
    if (mode == 1) { n_fault++; return -1; }
    if (mode == 2) { uint8_t k = nondet_u8(); ASSUME(k < total); n_fault++; return k; }
#endif
    return (int64_t)total;
}
#define XFER_PROLOGUE(what) \
    CHECK(iovcnt >= 0 && iovcnt <= MAXV, "harness bound: a vector handed to source / media has at most MAXV segments"); \
    ASSUME(iovcnt >= 0 && iovcnt <= MAXV); \
    Flat f; flat_init(f, iov, iovcnt); const uint64_t total = f.start[MAXV]; \
    CHECK(offset >= 0 && (uint64_t)offset <= SIZE && total <= SIZE - (uint64_t)offset, what); \
    ASSUME(offset >= 0 && (uint64_t)offset <= SIZE && total <= SIZE - (uint64_t)offset); \
    const int64_t lim = pick_outcome(total); \
    if (lim < 0) return -1; \
    xfer_ok = true;

// ---- source file --------------------------------------------------------------------------------------------------
NOINL static ssize_t src_read(const iovec* iov, int iovcnt, off_t offset)
{
    n_src_reads++;
    XFER_PROLOGUE("every source read lies inside [0, size)")
    for (uint64_t pos = 0; pos < SRCMAX; pos++) { if (pos >= (uint64_t)lim) break; put_byte(flat_at(f, pos), SRC[offset + pos]); }
    CHECK(xfer_ok, "a source read targets bytes of the caller's segments or of the refill buffer only");
    return lim;
}
static int n_unexpected;
#define UNEXPECTED { n_unexpected++; return -1; }
struct SrcFile : public IFile {
    ssize_t preadv2(const struct iovec* iov, int n, off_t off, int) override { return src_read(iov, n, off); }
    int fstat(struct stat* st) override
    {
#if FAULTS
        if (nondet_bool()) { n_fault++; return -1; }
#endif
        st->st_size = SIZE; return 0;
    }
    // not used by the cache read path (checked: n_unexpected stays 0)
    ssize_t pread(void*, size_t, off_t) override UNEXPECTED
    ssize_t preadv(const struct iovec*, int, off_t) override UNEXPECTED
    ssize_t preadv_mutable(struct iovec*, int, off_t) override UNEXPECTED
    ssize_t preadv2_mutable(struct iovec*, int, off_t, int) override UNEXPECTED
    ssize_t pwrite(const void*, size_t, off_t) override UNEXPECTED
    ssize_t pwritev(const struct iovec*, int, off_t) override UNEXPECTED
    ssize_t pwritev_mutable(struct iovec*, int, off_t) override UNEXPECTED
    ssize_t pwritev2(const struct iovec*, int, off_t, int) override UNEXPECTED
    ssize_t pwritev2_mutable(struct iovec*, int, off_t, int) override UNEXPECTED
    int ftruncate(off_t) override UNEXPECTED
    IFileSystem* filesystem() override { n_unexpected++; return nullptr; }
    int close() override UNEXPECTED
    ssize_t read(void*, size_t) override UNEXPECTED
    ssize_t readv(const struct iovec*, int) override UNEXPECTED
    ssize_t write(const void*, size_t) override UNEXPECTED
    ssize_t writev(const struct iovec*, int) override UNEXPECTED
    off_t lseek(off_t, int) override UNEXPECTED
    int fsync() override UNEXPECTED
    int fdatasync() override UNEXPECTED
    int fchmod(mode_t) override UNEXPECTED
    int fchown(uid_t, gid_t) override UNEXPECTED
};

// ---- what is cached -----------------------------------------------------------------------------------------------
#ifdef USE_RANGE_MODULE
static Raw<RangeModule> RMs;
#endif
static inline uint64_t align_dn(uint64_t x, uint64_t a) { return x / a * a; }
static inline uint64_t align_upw(uint64_t x, uint64_t a) { return (x + a - 1) / a * a; }

// the hole query of the store: outer hull of the missing pages that intersect the request, aligned to the refill unit
// (h_hole.cpp proves the lemma "hit => covered, miss => the range covers every uncovered byte" for this function on its own)
NOINL static std::pair<off_t, size_t> hole_query(off_t offset, size_t size)
{
    CHECK(offset >= 0 && (uint64_t)offset + size <= SIZE, "hole query lies inside the source file (documented precondition of queryRefillRange)");
    ASSUME(offset >= 0 && (uint64_t)offset + size <= SIZE);
#if FAULTS
    if (nondet_bool()) { n_fault++; return std::make_pair((off_t)-1, (size_t)0); }      // e.g. fiemap failed
#endif
#ifdef USE_RANGE_MODULE
    // the arithmetic of FileCacheStore::queryRefillRangeByMap over the real RangeModule
    std::pair<off_t, off_t> hole = RMs.v.queryRefillRange(offset, offset + size);
    if (hole.first == 0 && hole.second == 0) return std::make_pair((off_t)0, (size_t)0);
    uint64_t left = align_dn(hole.first, RUNIT), right = align_upw(hole.second, RUNIT);
    return std::make_pair((off_t)left, (size_t)(right - left));
#else
    if (size == 0) return std::make_pair((off_t)0, (size_t)0);
    int first = -1, last = -1;
    for (int p = 0; p < NPAGE; p++) {
        bool overlaps = (uint64_t)p * PAGE < (uint64_t)offset + size && (uint64_t)offset < (uint64_t)p * PAGE + PAGE;
        if (overlaps && !PRESENT[p]) { if (first < 0) first = p; last = p; }
    }
    if (first < 0) return std::make_pair((off_t)0, (size_t)0);
    uint64_t left = align_dn((uint64_t)first * PAGE, RUNIT), right = align_upw((uint64_t)(last + 1) * PAGE, RUNIT);
    return std::make_pair((off_t)left, (size_t)(right - left));
#endif
}

NOINL static ssize_t media_read(const iovec* iov, int iovcnt, off_t offset)
{
    n_media_reads++;
    XFER_PROLOGUE("every media read lies inside [0, size)")
    bool marked = true;
    for (uint64_t pos = 0; pos < SRCMAX; pos++) {
        if (pos >= (uint64_t)lim) break;
        if (!PRESENT[(offset + pos) / PAGE]) marked = false;
        put_byte(flat_at(f, pos), MEDIA[offset + pos]);
    }
    CHECK(marked, "media is read only where it is marked present");
    CHECK(xfer_ok, "a media read targets bytes of the caller's segments or of the refill buffer only");
    return lim;
}
NOINL static ssize_t media_write(const iovec* iov, int iovcnt, off_t offset)
{
    n_media_writes++;
    XFER_PROLOGUE("every media write lies inside [0, size)")
    bool genuine = true;
    for (uint64_t pos = 0; pos < SRCMAX; pos++) {
        if (pos >= (uint64_t)lim) break;
        uint8_t x = get_byte(flat_at(f, pos));
        if (x != SRC[offset + pos]) genuine = false;
        MEDIA[offset + pos] = x;
    }
    CHECK(genuine, "only source bytes are written to the media, each at its own offset");
    CHECK(xfer_ok, "a media write takes its bytes from the caller's segments or the refill buffer only");
    // what became present: every page whose bytes inside the file were all written by this request
    for (int p = 0; p < NPAGE; p++)
        if ((uint64_t)p * PAGE < SIZE && (uint64_t)offset <= (uint64_t)p * PAGE && page_end(p) <= (uint64_t)offset + (uint64_t)lim) PRESENT[p] = true;
#ifdef USE_RANGE_MODULE
    if (lim > 0) RMs.v.addRange(offset, offset + lim);          // FileCacheStore::addFilledRange
#endif
    return lim;
}

struct Store : public ICacheStore {
    std::pair<off_t, size_t> queryRefillRange(off_t offset, size_t size) override { return hole_query(offset, size); }
#ifdef MEDIA_VIA_MUTABLE
    // the real ICacheStore::do_preadv2 (SmartCloneIOV copy of the iovec array) forwards here
    ssize_t do_preadv2_mutable(struct iovec* iov, int iovcnt, off_t offset, int) override { return media_read(iov, iovcnt, offset); }
#else
    // as FileCacheStore does: the const-iovec variant is overridden
    ssize_t do_preadv2(const struct iovec* iov, int iovcnt, off_t offset, int) override { return media_read(iov, iovcnt, offset); }
#endif
    ssize_t do_pwritev2(const struct iovec* iov, int iovcnt, off_t offset, int) override { return media_write(iov, iovcnt, offset); }
    int set_quota(size_t) override { return -1; }
    int stat(CacheStat*) override { return -1; }
    int evict(off_t offset, size_t count, int) override
    {
        // truncate / punch: the pages touched are no longer present
        for (int p = 0; p < NPAGE; p++) {
            uint64_t b = (uint64_t)p * PAGE, e = b + PAGE;
            if (e > (uint64_t)offset && (count == (size_t)-1 || b < (uint64_t)offset + count)) PRESENT[p] = false;
        }
#ifdef USE_RANGE_MODULE
        if (count == (size_t)-1) RMs.v.removeFrom(offset); else RMs.v.removeRange(offset, offset + count);
#endif
        return 0;
    }
    int fstat(struct stat* buf) override { buf->st_size = actual_size_; return 0; }
    void setup(IFile* src, IOAlloc* al, off_t known_size)
    {
        CHECK(pool_ == nullptr && src_fs_ == nullptr && open_flags_ == 0, "harness: no pool (inline refill), no source file system (src_file_ given), plain open flags");
        set_src_file(src); set_page_size(PAGE); set_allocator(al);
        actual_size_ = known_size; cached_size_ = known_size;
    }
    bool no_range_locked() { return range_lock_.m_index.empty(); }
    // rt/c17_rbtree.c: the std::set of this RangeLock holds at most one element (checked there)
    void* lock_set_header() { return (void*)range_lock_.m_index.end()._M_node; }
};

// ---- memory handed to the code under test --------------------------------------------------------------------------
// Every block handed out ends exactly at the end of its static object (an overrun is an out-of-bounds access); the bytes in front
// of the block are guard bytes that are checked to be unchanged afterwards.  (One object per block size makes every store
// through an iov_base a many-way case split in the solver's symbolic execution.)
// (1) the store's IOAlloc (refill buffer)
static uint8_t RB_guard[SRCMAX];
static void* live_refill; static int refill_len;
static int c17_alloc(void*, IOAlloc::RangeSize size, void** ptr)
{
    CHECK(size.min >= 1 && size.max >= size.min && size.max <= SRCMAX, "refill buffer request is positive and no larger than the source file");
    ASSUME(size.min >= 1 && size.max >= size.min && size.max <= SRCMAX);
    CHECK(live_refill == nullptr, "harness bound: one refill buffer is live at a time");
#if FAULTS
    if (nondet_bool()) { n_fault++; *ptr = nullptr; return -1; }
#endif
    for (int i = 0; i < SRCMAX; i++) { uint8_t x = nondet_u8(); RB[i] = x; RB_guard[i] = x; }      // fresh memory has arbitrary content
    uint8_t* p = RB + (SRCMAX - size.max);
    refill_len = size.max; *ptr = p; live_refill = p; n_alloc++;
    return size.max;
}
static int c17_dealloc(void*, void* p)
{
    CHECK(p != nullptr && p == live_refill, "the refill buffer that was allocated is released");
    live_refill = nullptr; n_free++;
    return 0;
}
static bool refill_guard_intact()
{
    bool ok = true;
    for (int i = 0; i < SRCMAX; i++) if (i < SRCMAX - refill_len && RB[i] != RB_guard[i]) ok = false;
    return ok;
}
// (2) ::malloc / ::free (ir2c --map): IOVector::slice asks the default IOAlloc of the `input` vector for an iovec array
static iovec TI[3];      // the block ends at the end of the array
static void* live_malloc;
extern "C" {
NOINL void* verif_c17_malloc(uint64_t n)
{
    n_malloc++;
    CHECK(n == 16 || (n == 32 && NIOV >= 2) || (n == 48 && NIOV >= 3), "malloc is asked for an iovec array of 1..NIOV entries");
    ASSUME(n == 16 || n == 32 || n == 48);
    CHECK(live_malloc == nullptr, "harness bound: one malloc block is live at a time");
    void* p = TI + (3 - n / 16);
    live_malloc = p;
    return p;
}
NOINL void verif_c17_free(void* p)
{
    CHECK(p != nullptr && p == live_malloc, "free() is given the live malloc block");
    live_malloc = nullptr; n_mfree++;
}
extern char* verif_c17_single_header;
extern char* verif_c17_buf[8];          // rt/c17_stubs.c: payload buffers of the request (see verif_c17_memcpy_n)
}

// ---- objects --------------------------------------------------------------------------------------------------------
static Raw<SrcFile> srcS;
static Raw<Store> storeS;
static Raw<IOAlloc> allocS;
static Store* ST;

// user buffers: one static array per (read, segment); the segment ends at the end of the array, the bytes in front are guard bytes
static_assert(NIOV <= 3 && NREADS <= 2 && SEGMAX <= 8, "add user buffers");
#define UBSEL(k) static inline uint8_t* ub_##k(uint64_t n) { return UB_##k + (SEGMAX - n); }
UBSEL(0) UBSEL(1) UBSEL(2) UBSEL(3) UBSEL(4) UBSEL(5)
static inline uint8_t* ubuf(int k, uint64_t n) { return k == 0 ? ub_0(n) : k == 1 ? ub_1(n) : k == 2 ? ub_2(n) : k == 3 ? ub_3(n) : k == 4 ? ub_4(n) : ub_5(n); }

static void check_media_invariant()
{
    bool ok = true;
    for (uint64_t i = 0; i < SRCMAX; i++) if (i < SIZE && PRESENT[i / PAGE] && MEDIA[i] != SRC[i]) ok = false;
    CHECK(ok, "media bytes equal source bytes wherever the media is marked present");
#ifdef USE_RANGE_MODULE
    // bitmap and interval set agree: a page is present iff the real RangeModule reports its bytes covered
    for (int p = 0; p < NPAGE; p++) if ((uint64_t)p * PAGE < SIZE) {
        auto q = RMs.v.queryRefillRange(p * PAGE, page_end(p));
        CHECK(PRESENT[p] == (q.first == 0 && q.second == 0), "RangeModule covers exactly the pages that were completely written");
    }
#endif
}

static void world_init()
{
    new (&srcS.v) SrcFile;
    ST = new (&storeS.v) Store;
    new (&allocS.v) IOAlloc(IOAlloc::Allocator(nullptr, &c17_alloc), IOAlloc::Deallocator(nullptr, &c17_dealloc));
#ifdef USE_RANGE_MODULE
    new (&RMs.v) RangeModule;
#endif
    uint8_t s = nondet_u8(); ASSUME(s >= 1 && s <= SRCMAX);
    SIZE = s;
    for (int i = 0; i < SRCMAX; i++) SRC[i] = nondet_u8();
    // the store either knows the size (a media file of the source's size exists, any subset of its pages cached) or starts from an
    // empty media file (size 0, nothing cached; the size is fetched from the source by tryget_size on the first read)
#ifdef KNOWN
    const bool known = KNOWN;
#else
    const bool known = nondet_bool();
#endif
    for (int p = 0; p < NPAGE; p++) {
        bool pr = nondet_bool();
        PRESENT[p] = known && pr && (uint64_t)p * PAGE < SIZE;
#ifdef USE_RANGE_MODULE
        if (PRESENT[p]) RMs.v.addRange(p * PAGE, page_end(p));
#endif
    }
    for (int i = 0; i < SRCMAX; i++) { uint8_t g = nondet_u8(); MEDIA[i] = PRESENT[i / PAGE] ? SRC[i] : g; }
    ST->setup(&srcS.v, &allocS.v, known ? (off_t)SIZE : 0);
    verif_c17_single_header = (char*)ST->lock_set_header();
    verif_c17_buf[0] = (char*)RB; verif_c17_buf[1] = (char*)UB_0;
#if NIOV * NREADS > 1
    verif_c17_buf[2] = (char*)UB_1;
#endif
#if NIOV * NREADS > 2
    verif_c17_buf[3] = (char*)UB_2;
#endif
#if NIOV * NREADS > 3
    verif_c17_buf[4] = (char*)UB_3;
#endif
#if NIOV * NREADS > 4
    verif_c17_buf[5] = (char*)UB_4; verif_c17_buf[6] = (char*)UB_5;
#endif
}

template<int RD> static inline __attribute__((always_inline)) void one_read()
{
    static iovec V[NIOV], V0[NIOV];
    uint8_t* seg[NIOV]; uint64_t slen[NIOV]; uint8_t before[NIOV][SEGMAX];
    uint8_t o8 = nondet_u8(); ASSUME(o8 >= OFFMIN && o8 <= OFFMAX);
    const uint64_t off = o8;
    uint64_t len = 0;
    for (int k = 0; k < NIOV; k++) {
        uint8_t l = nondet_u8(); ASSUME(l <= SEGMAX);
        slen[k] = l; len += l;
        seg[k] = ubuf(RD * NIOV + k, l);
        for (int i = 0; i < SEGMAX; i++) { uint8_t x = nondet_u8(); (seg[k] + l - SEGMAX)[i] = x; before[k][i] = x; }     // whole array, guard bytes included
        V[k].iov_base = seg[k]; V[k].iov_len = l; V0[k] = V[k];
    }
    bool pre[NPAGE]; for (int p = 0; p < NPAGE; p++) pre[p] = PRESENT[p];
    n_fault = 0; n_src_reads = 0; n_media_reads = 0; n_media_writes = 0; n_malloc = 0; n_mfree = 0;

    ssize_t r = ST->preadv2(V, NIOV, off, 0);

    const uint64_t want = off < SIZE ? mn(len, SIZE - off) : 0;
    if (n_fault == 0) CHECK(r == (ssize_t)want, "without an injected fault the read returns min(length, size - offset)");
    CHECK(r >= -1 && r <= (ssize_t)want, "a read returns -1 or a count that never exceeds what the source holds in the range");
    if (r < 0) CHECK(n_fault > 0, "a read fails only if a source / media fault was injected");
    bool same = true, untouched = true, vsame = true; uint64_t pos = 0;
    for (int k = 0; k < NIOV; k++) {
        if (!(V[k] == V0[k])) vsame = false;
        for (uint64_t i = 0; i < SEGMAX; i++) {
            uint8_t now = (seg[k] + slen[k] - SEGMAX)[i];            // byte i of the whole array
            if (i < SEGMAX - slen[k]) { if (now != before[k][i]) untouched = false; }     // guard bytes in front of the segment
            else {
                if (r >= 0 && pos < (uint64_t)r && now != SRC[off + pos]) same = false;
                if (pos >= want && now != before[k][i]) untouched = false;
                pos++;
            }
        }
    }
    CHECK(same, "the bytes delivered are the source's bytes of the range");
    CHECK(untouched, "buffer space beyond min(length, size - offset), and in front of each segment, is not written");
    CHECK(vsame, "the caller's iovec array is left unchanged");
    check_media_invariant();
    CHECK(ST->no_range_locked(), "no refill range stays locked after the read");
    CHECK(n_alloc == n_free && live_refill == nullptr && n_malloc == n_mfree && live_malloc == nullptr, "temporary buffers are released");
    CHECK(refill_guard_intact(), "nothing is written in front of the refill buffer");
    CHECK(n_unexpected == 0, "the source file is accessed through preadv2 and fstat only");
    if (n_fault == 0 && want > 0) {
        bool filled = true;
        for (int p = 0; p < NPAGE; p++) if ((uint64_t)p * PAGE < off + want && off < (uint64_t)p * PAGE + PAGE && !PRESENT[p]) filled = false;
        CHECK(filled, "after a fault-free read every page of the range is cached");
    }
    bool kept = true; for (int p = 0; p < NPAGE; p++) if (pre[p] && !PRESENT[p]) kept = false;
    CHECK(kept, "a read never drops cached pages");

    // vacuity witnesses on the interesting paths
    if (RD == 0) {
#if !defined(KNOWN) || KNOWN
        if (n_fault == 0 && n_src_reads == 0 && want > 0 && n_media_reads == 1) WITNESS("fully cached read served from media");
#if OFFMIN + PAGE < SRCMAX
        if (n_fault == 0 && n_src_reads == 1 && n_media_reads == 1 && want > 1) WITNESS("partly cached range: refill plus media read of the remainder");
        if (n_malloc == 1) WITNESS("refill covers the tail of the request (IOVector::slice)");
#endif
#endif
#if !defined(KNOWN) || !KNOWN
        if (ST->get_actual_size() == (off_t)SIZE && !pre[0] && n_fault == 0 && want > 0 && SIZE > PAGE) WITNESS("size fetched from the source, then the range refilled");
#endif
        if (n_fault == 0 && n_src_reads == 1 && n_media_writes == 1 && n_media_reads == 0 && want > 0) WITNESS("absent range: refilled and served from the refill buffer");
        if (n_fault == 0 && want < len && want > 0 && SIZE % PAGE != 0) WITNESS("read clipped at an unaligned end of file");
        if (off >= SIZE && len > 0) WITNESS("read at or beyond end of file");
#if FAULTS
        if (r == -1) WITNESS("faulted read fails");
        if (n_fault > 0 && r == (ssize_t)want && want > 0) WITNESS("fault absorbed: full correct read");
        if (n_fault > 0 && r >= 0 && r < (ssize_t)want) WITNESS("fault: short but correct read");
#endif
    } else {
        if (n_fault == 0 && n_src_reads == 0 && want > 0) WITNESS("second read fully cached");
        if (n_fault == 0 && n_src_reads == 1 && want > 0) WITNESS("second read refills");
    }
}

extern "C" {
void harness_read()
{
    world_init();
    check_media_invariant();
    one_read<0>();
#if NREADS >= 2
    one_read<1>();
#endif
}

// hole-query lemma for the store harness's own query (bitmap or RangeModule variant): a hit means the request is covered, a miss
// returns a refill-unit aligned range that covers every missing byte of the request
void harness_holequery()
{
    world_init();
    uint8_t o8 = nondet_u8(), c8 = nondet_u8();
    ASSUME((uint64_t)o8 + c8 <= SIZE);
    n_fault = 0;
    std::pair<off_t, size_t> q = ST->queryRefillRange(o8, c8);
    if (n_fault == 0) {
        bool hit = q.first == 0 && q.second == 0, ok = true;
        for (uint64_t x = 0; x < SRCMAX; x++) if (x >= o8 && x < (uint64_t)o8 + c8) {
            bool present = PRESENT[x / PAGE];
            if (hit && !present) ok = false;
            if (!hit && !present && !((uint64_t)q.first <= x && x < (uint64_t)q.first + q.second)) ok = false;
        }
        CHECK(ok, "hole query: a hit means every byte of the request is present, a miss returns a range covering every missing byte");
        if (!hit) CHECK(q.first >= 0 && q.first % RUNIT == 0 && q.second % RUNIT == 0 && q.second > 0, "hole query: a refill range is non-empty and aligned to the refill unit");
        if (hit && c8 > 4) WITNESS("hole query: multi-page hit");
        if (!hit && q.second > 4 && (uint64_t)q.first + q.second > SIZE) WITNESS("hole query: refill range reaches beyond the end of file");
        if (!hit && (uint64_t)q.first > o8) WITNESS("hole query: request starts in a cached page");
    } else CHECK(q.first < 0, "a failed hole query reports a negative offset");
}

// try_refill_range through the public prefetch(): afterwards the whole (page-aligned, clipped) range is cached
void harness_prefetch()
{
    world_init();
    uint8_t o8 = nondet_u8(), c8 = nondet_u8();
    ASSUME(o8 <= OFFMAX && c8 <= SRCMAX + 2);
    n_fault = 0; n_src_reads = 0; n_media_writes = 0;
    ssize_t r = ST->prefetch(c8, o8, 0);
    uint64_t b = align_dn(o8, PAGE), e = align_upw((uint64_t)o8 + c8, PAGE);
    uint64_t want = b < SIZE ? mn(e, SIZE) - b : 0;
    if (n_fault == 0) {
        CHECK(r == (ssize_t)want, "without a fault prefetch reports the page-aligned range clipped to the file size");
        bool filled = true;
        for (int p = 0; p < NPAGE; p++) if ((uint64_t)p * PAGE < mn(e, SIZE) && b < (uint64_t)p * PAGE + PAGE && !PRESENT[p]) filled = false;
        CHECK(filled, "after a fault-free prefetch every page of the range is cached");
    } else CHECK(r >= -1 && r <= (ssize_t)want, "a faulted prefetch returns -1 or at most the range");
    if (r < 0) CHECK(n_fault > 0, "prefetch fails only if a fault was injected");
    check_media_invariant();
    CHECK(ST->no_range_locked(), "no refill range stays locked after the prefetch");
    CHECK(n_alloc == n_free && live_refill == nullptr, "temporary buffers are released");
    CHECK(refill_guard_intact(), "nothing is written in front of the refill buffer");
    CHECK(n_unexpected == 0, "the source file is accessed through preadv2 and fstat only");
    if (n_fault == 0 && n_src_reads == 1 && want > 4) WITNESS("prefetch refilled a multi-page range");
    if (n_fault == 0 && n_src_reads == 0 && want > 0) WITNESS("prefetch of a cached range reads nothing");
    if (o8 >= SIZE) WITNESS("prefetch beyond end of file");
}
}
