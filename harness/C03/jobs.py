import os, importlib.util
from vlib import Job
_spec = importlib.util.spec_from_file_location('c01jobs', os.path.join(os.path.dirname(__file__), '..', 'C01', 'jobs.py'))
_c01 = importlib.util.module_from_spec(_spec); _spec.loader.exec_module(_c01)
kjob = _c01.kjob

META = dict(
    bounds='1-2 waiters (no deadline / finite deadline) + 1 notifier (notify_one or notify_all, issued while holding the lock or after releasing it: symbolic), mutex and spinlock variants, '
           'cooperative scheduling with symbolic timeout events, <= 5-7 execution slices',
    outside='pre-emption inside the primitives (multi-vCPU interleaving of their atomic steps); the enqueue-before-deferred-unlock order of the real prepare_usleep (held by construction in K; a Layer-A obligation, not built); '
            'interrupts delivered to a waiter; more threads / slices',
    assumptions=['kernel contract K (rt/kcontract.h)', 'await-as-assume for spin iterations'],
)
SRC = 'C03/h_cv.cpp'
def jobs(tier):
    q = tier == 'quick'
    J = []
    J.append(kjob('cv_spin_1w_one', SRC, 2, 4, ['USE_SPINLOCK'], desc='spinlock: 1 waiter, notify_one', timeout=900, unwind=3, mem_gb=6))
    J.append(kjob('cv_mutex_1w_one', SRC, 2, 6, ['YIELD_HOLDING'], desc='mutex: 1 waiter, notify_one, notifier may keep the lock across a yield (contended re-lock)', timeout=900, unwind=3, mem_gb=8))
    J.append(kjob('cv_spin_2w_all', SRC, 3, 6, ['USE_SPINLOCK', 'TWO_WAITERS', 'NOTIFY_ALL'], desc='spinlock: 2 waiters, notify_all', timeout=900, unwind=4, mem_gb=8))
    J.append(kjob('cv_spin_2w_one', SRC, 3, 6, ['USE_SPINLOCK', 'TWO_WAITERS'], desc='spinlock: 2 waiters, notify_one', timeout=900, unwind=4, mem_gb=8))
    J.append(kjob('cv_mutex_2w_all', SRC, 3, 7, ['TWO_WAITERS', 'NOTIFY_ALL'], desc='mutex: 2 waiters, notify_all', timeout=1200, unwind=4, mem_gb=10))
    # several vCPUs: the other thread may run before every atomic operation and before every blocking call of the primitive
    J.append(kjob('cv_spin_1w_one_mv', SRC, 2, 7, ['USE_SPINLOCK'], mode='preempt', desc='spinlock: 1 waiter, notify_one, waiter and notifier on different vCPUs (pre-emption at atomic operations)', timeout=900, unwind=3, mem_gb=8))
    for j in J: j.cbmc += ['-DVERIF_STUCK_IS_LEGAL']
    return J
