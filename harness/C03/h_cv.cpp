// C03 (condition variable on the kernel contract K): release-and-wait is atomic, notifications are not lost,
// wait() returns with the lock held, 0 when notified and -1/ETIMEDOUT only after its deadline.
// Real code: condition_variable::wait(mutex*/spinlock*), cvar_do_wait, waitq::resume_one / resume_all (notify_one / notify_all),
// mutex::lock/unlock or spinlock, ScopedLockHead, waitq_translate_errno - inlined into the thread entries.  Stub boundary: K.
#include "verif_h.h"
#include "nolog.h"
#define noinline
#include "thread/thread.cpp"
#undef noinline
#include "kcontract.h"
using namespace photon;

#ifdef USE_SPINLOCK
typedef spinlock LockT;
static inline bool held_by(LockT& l, int me) { return l.locked(); }
#else
typedef mutex LockT;
static inline bool held_by(LockT& l, int me) { return l.owner.load() == K_thread(me); }
#endif
static Raw<LockT> L;
static Raw<condition_variable> CV;
static bool waiting[KN], finite_to[KN];      // protected by L: the thread has entered wait() / its timeout is finite
static int wret[KN], werr[KN];
static int n_waiting_at_notify, notified, notify_ret_nonnull;
static bool was_waiting[KN];                 // snapshot taken by the notifier under the lock: who had entered wait() before the notification

template<int ME> static inline __attribute__((always_inline)) void waiter()
{
    L.v.lock();
    uint8_t k = nondet_u8(); ASSUME(k < 2);
    Timeout t = k ? Timeout(100) : Timeout();
    finite_to[ME] = (k != 0);
    waiting[ME] = true;
    int r = CV.v.wait(L.v, t);
    int e = errno;
    waiting[ME] = false;
    CHECK(held_by(L.v, ME), "wait() returns with the lock held again");
    wret[ME] = r; werr[ME] = e;
    if (r != 0) {
        CHECK(r == -1 && e == ETIMEDOUT, "wait() fails only with ETIMEDOUT");
        CHECK(K_timedout[ME] || finite_to[ME], "wait() reports a timeout only if its deadline was finite");
    }
    L.v.unlock();
}
template<int ME> static inline __attribute__((always_inline)) void notifier()
{
    bool inside = nondet_bool();     // notify while holding the lock, or after releasing it
    L.v.lock();
    int nw = 0, ninf = 0;
    for (int i = 0; i < KN; i++) { was_waiting[i] = waiting[i]; if (waiting[i]) { nw++; if (!finite_to[i]) ninf++; } }
    n_waiting_at_notify = nw;
    int woken;
#ifdef NOTIFY_ALL
    if (inside) { woken = CV.v.notify_all(); L.v.unlock(); } else { L.v.unlock(); woken = CV.v.notify_all(); }
    CHECK(woken <= nw, "notify_all wakes no more threads than were waiting");
    CHECK(woken >= ninf, "notify_all wakes every thread that was waiting without a deadline");
#else
    thread* th;
    if (inside) {
        th = CV.v.notify_one();
#ifdef YIELD_HOLDING
        thread_yield();            // keep the lock while the woken waiter runs: its re-lock is contended and goes through the yield/sleep path
#endif
        L.v.unlock();
    } else { L.v.unlock(); th = CV.v.notify_one(); }
    woken = th ? 1 : 0;
    if (ninf > 0) CHECK(th != nullptr, "a thread that called wait() before the notifier took the lock is found by notify_one (no lost notification)");
    if (nw == 0) CHECK(th == nullptr, "notify_one wakes nobody when nobody was waiting");
#endif
    notified = woken;
}
extern "C" {
void thread_entry_0() { waiter<0>(); }
#ifdef TWO_WAITERS
void thread_entry_1() { waiter<1>(); }
void thread_entry_2() { notifier<2>(); }
#else
void thread_entry_1() { notifier<1>(); }
#endif
#ifdef USE_SPINLOCK
NOINL void world_init() { new (&L.v) LockT(); new (&CV.v) condition_variable(); }
#else
NOINL void world_init() { new (&L.v) LockT(/*max_retries*/ 1); new (&CV.v) condition_variable(); }
#endif
NOINL void world_final(uint32_t all_done, uint32_t stuck)
{
    if (all_done) {
        CHECK(CV.v.q.th == nullptr, "quiescence: nobody left in the condition variable's queue");
        int zeros = 0; for (int i = 0; i < KN; i++) if (waiting[i] == false && wret[i] == 0) zeros++;
        if (wret[0] == 0 && n_waiting_at_notify > 0) WITNESS("waiter 0 was notified");
        if (wret[0] == -1) WITNESS("waiter 0 timed out");
        if (n_waiting_at_notify == 0) WITNESS("notifier ran before anybody waited");
    }
    if (stuck) {
        // a waiter without deadline may legitimately stay blocked only if the notification came before it waited
        for (int i = 0; i < KN; i++) if (waiting[i] && K_is_blocked(i)) {
#ifdef NOTIFY_ALL
            CHECK(!was_waiting[i], "no lost notification: a waiter blocked for ever had not entered wait() when notify_all ran");
#else
            CHECK(!was_waiting[i] || (notified == 1 && n_waiting_at_notify >= 2), "no lost notification: a waiter blocked for ever had not entered wait() when notify_one ran, or notify_one woke another waiter");
#endif
        }
        WITNESS("a waiter that arrives after the only notification stays blocked");
    }
}
}
