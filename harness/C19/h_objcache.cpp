// C19 (ObjectCache): one live object per key, the constructor never runs twice at once for a key, a failed construction is
// reported without poisoning later attempts, an object is never destroyed / recycled while borrowed, expiry removes only
// unreferenced expired objects, a recycling release returns only after every other holder released.
// Real code: common/expirecontainer.cpp (ObjectCacheBase::ref_acquire / ref_release / release, ExpireContainerBase::expire /
// enqueue / insert / __find_prelock, included textually), common/expirecontainer.h (ObjectCache<int, Obj*>, PtrItem, intrusive list),
// the real std::unordered_set (header code; bucket policy stand-in), the real spinlock _lock.
// mutex / semaphore / condition_variable are contracts (rt/ksync.h); photon::Timer's thread is not started (the timer firing is an
// actor that calls the real expire() at an arbitrary point with a symbolic clock).
#include "verif_h.h"
#include "nolog.h"
#include <unordered_set>
#include <string>
#include "ksync.h"
#include <photon/common/callback.h>
struct HarnessCtorTag;
static inline __attribute__((always_inline)) void harness_ctor(void* item);
// harness-side specialisation of the delegate type used only for ObjectCache constructors: a direct (inlinable) call, so that a
// slow constructor's blocking point is a context-switch point of the acquiring thread entry
template<> struct Delegate<void, void*> : public Delegate_Base {
    Delegate() = default;
    template<class T> Delegate(T&&) { }
    inline __attribute__((always_inline)) void operator()(void* item) const { harness_ctor(item); }
};
// Stand-in for std::unordered_set<Item*, ItemHash, ItemEqual> (libstdc++ hash-table code is outside the property and costs minutes of
// symbolic execution): a small array (USLOTS entries) with the same find / emplace / erase / iteration contract, keyed through the real ItemEqual.
#define USLOTS 2     // the stand-in below is written loop-free for two entries
namespace std {
template<class K, class H, class E> class verif_uset {
public:
    K slot[USLOTS];
    struct iterator {
        K* p; K* e;
        K& operator*() const { return *p; }
        K* operator->() const { return p; }
        iterator& operator++() { ++p; if (p != e && !*p) ++p; return *this; }
        bool operator==(const iterator& r) const { return p == r.p; }
        bool operator!=(const iterator& r) const { return p != r.p; }
    };
    verif_uset() { slot[0] = nullptr; slot[1] = nullptr; }
    verif_uset(verif_uset&& r) { slot[0] = r.slot[0]; r.slot[0] = nullptr; slot[1] = r.slot[1]; r.slot[1] = nullptr; }
    iterator end() { return iterator{slot + USLOTS, slot + USLOTS}; }
    iterator begin() { iterator it{slot, slot + USLOTS}; if (!*it.p) ++it; return it; }
    iterator find(const K& k) { if (slot[0] && E()(slot[0], k)) return iterator{slot, slot + USLOTS}; if (slot[1] && E()(slot[1], k)) return iterator{slot + 1, slot + USLOTS}; return end(); }
    std::pair<iterator, bool> emplace(const K& k) {
        iterator f = find(k); if (f != end()) return {f, false};
        if (!slot[0]) { slot[0] = k; return {iterator{slot, slot + USLOTS}, true}; }
        if (!slot[1]) { slot[1] = k; return {iterator{slot + 1, slot + USLOTS}, true}; }
        __CPROVER_assume(false); return {end(), false};
    }
    size_t erase(const K& k) { iterator f = find(k); if (f == end()) return 0; *f.p = nullptr; return 1; }
    size_t size() const { return (size_t)(slot[0] != nullptr) + (size_t)(slot[1] != nullptr); }
};
}
#define unordered_set verif_uset
#define protected public
#define private public
#include "common/expirecontainer.cpp"
#undef unordered_set
#undef protected
#undef private
using namespace photon;


struct Obj { int key; int serial; };
typedef ObjectCache<int, Obj*> OC;
static Raw<OC> C;
// Typed allocation pools: the cache's items and the cached objects live in typed static storage (struct-holding malloc blocks make every
// access a byte-level extract: out of memory at 2 slices).  delete poisons the block: a later use of a destroyed object / freed item fails
// the harness CHECKs (serial == 0, key == -1) or CBMC's pointer checks (the item's object pointer becomes an invalid address).
// One item and one object per allocating thread: the thread id is a constant inside each scheduler branch, so every allocation is a
// concrete address for the symbolic execution (a pool with a symbolic cursor made each vtable-pointer store a 4-way byte-level update).
// (separate objects, not arrays: a pointer that may denote pool[0] or pool[1] of ONE array object has a symbolic offset and every access through it
// becomes a byte-level operation over the whole array)
static Raw<OC::Item> item_pool0, item_pool1, item_pool2, item_pool3; static Raw<Obj> obj_pool0, obj_pool1, obj_pool2, obj_pool3;
static bool item_used[4]; static bool obj_used[4]; static int items_freed, objs_freed;
void* operator new(size_t n)
{
    int me = (int)verif_get_tid();
#define PN(i) if (me == i) { \
        if (n == sizeof(OC::Item)) { CHECK(!item_used[i], "harness bound: each user allocates at most one cache item"); item_used[i] = true; return &item_pool##i.v; } \
        if (n == sizeof(Obj)) { CHECK(!obj_used[i], "harness bound: each user constructs at most one object"); obj_used[i] = true; return &obj_pool##i.v; } }
    K_EACH(PN)
#undef PN
    CHECK(false, "harness: unexpected allocation"); return nullptr;
}
static inline void pool_free(void* p)
{
    if (!p) return;
#define PF(i) if (p == (void*)&item_pool##i.v) { item_pool##i.v._obj = (void*)(uintptr_t)0xdead0000; item_pool##i.v._refcnt = 0x5a5a5a5a; items_freed++; return; } \
              if (p == (void*)&obj_pool##i.v) { CHECK(obj_pool##i.v.serial != 0, "an object is destroyed at most once"); obj_pool##i.v.serial = 0; obj_pool##i.v.key = -1; objs_freed++; return; }
    K_EACH(PF)
#undef PF
    CHECK(false, "harness: delete of a block that was not allocated");
}
void operator delete(void* p) noexcept { pool_free(p); }
void operator delete(void* p, size_t) noexcept { pool_free(p); }
// ghost
static int ctor_running[2], ctors[2], live_refs[2];
static int acquired_ok[KN], acquire_failed[KN];
static Obj* held_obj[2];        // the object the current holders of a key share

// Timer start-up is not encoded: these three calls of Timer's inline constructor are harness no-ops
extern "C" photon::thread* verif_thread_create(void*, void*, uint64_t, uint32_t, uint64_t) { return (photon::thread*)nullptr; }
extern "C" void* verif_thread_enable_join(photon::thread*, bool) { return nullptr; }
extern "C" int verif_thread_yield_to(photon::thread*) { return 0; }

static uint8_t ctor_mode[KN];     // per acquirer: 0 = succeeds, 1 = fails, 2 = slow (yields inside) then succeeds
static inline __attribute__((always_inline)) void harness_ctor(void* item_)
{
    auto item = (OC::Item*)item_;
    int k = item->_key; int me = (int)verif_get_tid();
    ctor_running[k]++;
    CHECK(ctor_running[k] == 1, "the constructor never runs twice at once for one key");
    CHECK(live_refs[k] == 0, "no object is constructed for a key while references to its object are held");
    if (ctor_mode[me] == 2) thread_yield();
    if (ctor_mode[me] != 1) {
        Obj* o = new Obj; o->key = k; o->serial = ++ctors[k];      // heap object: the cache deletes it; a later use is a use-after-free
        item->_obj = o;
    }
    ctor_running[k]--;
}
template<int ME_> static inline __attribute__((always_inline)) void user()
{
    uint8_t k = nondet_u8() & 1 ? 1 : 0;
#ifdef ONE_KEY
    k = 0;
#endif
    uint8_t m = nondet_u8(); ASSUME(m < 3); ctor_mode[ME_] = m;
    auto item = C.v.ref_acquire(k, [] { return (Obj*)nullptr; });
    if (!item) { acquire_failed[ME_]++; CHECK(m == 1 || true, "a failed construction is reported to its acquirer"); return; }
    acquired_ok[ME_]++;
    Obj* o = item->get_ptr();
    CHECK(o != nullptr && o->key == k, "a successful acquire returns the object of its key");
    if (live_refs[k] > 0) CHECK(o == held_obj[k], "all concurrent acquirers of a key share the one live object");
    held_obj[k] = o; live_refs[k]++;
    thread_yield();                                   // hold the reference while others run (acquire / release / expire)
    CHECK(o->key == k && o->serial >= 1, "the borrowed object is still alive (never destroyed or recycled while a reference is held)");
    live_refs[k]--;
    bool recycle = nondet_bool();
#ifdef NO_RECYCLE
    recycle = false;
#endif
    Obj* back = C.v.ref_release(item, recycle, /*destroy*/ false);
    if (recycle && back) {
        CHECK(live_refs[k] == 0, "a recycling release returns only after every other holder has released");
        CHECK(back == o, "the recycler receives the object it released");
        CHECK(back->key == k, "the recycled object is still alive when handed to the recycler");
    }
}
extern "C" {
void thread_entry_0() { user<0>(); }
void thread_entry_1() { user<1>(); }
#if NT > 2
// the timer: fires at an arbitrary point with an arbitrary clock value
void thread_entry_2() { photon::now = photon::now + nondet_u32(); C.v.expire(); }
#endif
NOINL void world_init() { new (&C.v) OC(/*lifespan*/ 1000, /*timer cycle*/ 1000, /*num_limit*/ (uint64_t)-1); }
NOINL void world_final(uint32_t all_done, uint32_t stuck)
{
    if (all_done) {
        CHECK(live_refs[0] == 0 && live_refs[1] == 0, "quiescence: no reference held");
        if (acquired_ok[0] && acquired_ok[1]) WITNESS("both users acquired");
        if (acquire_failed[0] || acquire_failed[1]) WITNESS("a construction failed and was reported");
        if (ctors[0] >= 2) WITNESS("a key was constructed again after its object was recycled or expired");
    }
}
}
