import os, importlib.util
from vlib import Job
_spec = importlib.util.spec_from_file_location('c01jobs', os.path.join(os.path.dirname(__file__), '..', 'C01', 'jobs.py'))
_c01 = importlib.util.module_from_spec(_spec); _spec.loader.exec_module(_c01)
ksjob = _c01.ksjob

META = dict(
    bounds='ObjectCache<int, Obj*>: 2 users (acquire with constructor outcome ok / fail / slow, hold across a yield, release plain or recycling) over 1 key (quick) or 2 keys, plus a timer actor calling expire() with a symbolic clock (3-thread jobs); '
           'cooperative scheduling, <= 8-10 slices',
    outside='ObjectCacheV2; destroy=true recycling; failure_cooldown > 0; num_limit eviction; the Timer thread itself (its firing is an actor); multi-vCPU pre-emption inside expirecontainer.cpp',
    assumptions=['contract-level sync layer rt/ksync.h', 'constructor delegate replaced by a harness-side specialisation (direct call)', 'std::unordered_set<Item*> replaced by a 4-slot array stand-in keyed through the real ItemEqual',
                 'cached objects are heap blocks: use after destruction is detected by the deallocated-object check'],
)
SRC = 'C19/h_objcache.cpp'
TMAP = ['--map', r'^@_ZN6photon13thread_createEPFPvS0_ES0_m[a-z]+$=verif_thread_create', '--map', r'^@_ZN6photon18thread_enable_joinEPNS_6threadEb$=verif_thread_enable_join',
        '--map', r'^@_ZN6photon15thread_yield_toEPNS_6threadE$=verif_thread_yield_to']
def jobs(tier):
    q = tier == 'quick'
    J = []
    J.append(ksjob('oc_2users_1key', SRC, 2, 7, ['ONE_KEY'], desc='2 users of one key: construct / share / release / recycle', stuck_legal=False, timeout=1800, unwind=3, mem_gb=10, extra_ir2c=TMAP, shims=['c19_stubs.c']))
    J.append(ksjob('oc_2users_expire', SRC, 3, 9, ['ONE_KEY', 'NO_RECYCLE'], desc='2 users of one key + timer-driven expire() at an arbitrary point', stuck_legal=False, timeout=1500, unwind=5, mem_gb=12, extra_ir2c=TMAP, shims=['c19_stubs.c']))
    return J
