"""Per-property claims.  CHECKS: claimed properties.  NOT_APPLICABLE: everything not (yet) claimed, with the reason."""

TECH = 'bounded symbolic execution of the real code: clang-14 IR of /repo sources -> ir2c -> CBMC 6.11 (SAT), vacuity witnesses, native replay'

CHECKS = {
    'C15': dict(
        text='For every offset/length/interval inside the stated bounds the solver shows that all_parts() of range_split, '
             'range_split_power2 (full 64-bit width) and range_split_vi tile the range (adjacent, non-empty, one block each, union exact), '
             'that the small-note/preface/aligned/postface classification equals that list and that the aligned offsets enclose the range '
             'with < 1 interval of slack.  Bounded model checking is the right level: the property is a pure function of three integers and '
             'the interesting inputs (boundary alignments) are rare points the suite samples a handful of.',
        note='Bounds: symbolic interval only at reduced width (values < 2^5 quick, 2^7 thorough) because bit-blasted symbolic division does not scale; '
             'power-of-two and variable-interval variants at full 64-bit width; number of parts bounded by the unwinding (checked by unwinding assertions). '
             'Assumes offset+length+interval does not wrap 2^64.  Trusted: clang IR generation, ir2c (validated per run against the g++ build on 300 vectors), CBMC.',
        technique=TECH, design_ref='DESIGN.md §3 C15'),
    'C20': dict(
        text='For every path string up to the stated length over {/ . a NUL}, for each of the 30 one-path and 2 two-path operations of SubFileSystem, '
             'the solver shows that whatever reaches the underlying filesystem is either a null path (rejected) or exactly base + path with a lexical '
             'resolution that never climbs above the base (reference resolver in the harness), and conversely that every path whose prefixes stay inside '
             'the base is forwarded; plus the PATH_MAX length check for every base length.  The input space is a small alphabet with rare interesting '
             'strings ("a/../..", "..." , trailing slashes), which is what bounded symbolic execution covers completely.',
        note='Bounds: path length <= 5 (quick) / 8 (thorough); two-path operations with lengths <= 3/4; PATH_MAX shrunk to 32 in the harness build (platform constant; '
             'comparison logic unchanged).  Logging macros have empty bodies; __dynamic_cast of the one cast in init() is a harness stand-in.  Symlinks in the underlay are outside '
             'the property (lexical resolution).  Found and fixed (d53df53): legal paths such as "a/.." were refused.',
        technique=TECH, design_ref='DESIGN.md §3 C20'),
    'C14': dict(
        text='For every iovector_view of up to 3 elements of 0..2 (quick) / 0..3 (thorough) bytes, every request size from 0 to beyond the total, every offset and every '
             'destination shape, the solver shows that each operation (sum, shrink_to, shrink_less_than, extract_front/back in their three forms, contiguous extracts, '
             'slice, memcpy_to/from, pipe_to) returns the count and bytes of the same operation on the flat byte string and leaves exactly the remaining bytes, with CBMC '
             'checking every load/store against exact-size element buffers and exact-size iovec arrays.',
        note='One operation per run (sequences of operations and the owning iovector/IOVectorEntity wrappers are not covered).  Elements live in static exact-size arrays '
             '(heap blocks made the SAT back end run out of memory); memcpy with a symbolic length is a bounded byte loop.  Found and fixed (1a147ad): iov_iterator read iov[0] of an empty view.',
        technique=TECH, design_ref='DESIGN.md §3 C14'),
    'C18': dict(
        text='Sequential inductive step on the real RangeLock + std::set header code: from every state reachable by two (quick) / three (thorough) symbolic try_lock_wait2 calls, one of '
             'try_lock_wait2 / try_lock_wait / adjust_range / unlock(handle) / unlock(range) with symbolic 64-bit arguments (zero length, saturating end, nested, adjacent), then a symbolic '
             'probe: a granted range never shares a byte with a held one, a non-conflicting request is granted, the conflict report of try_lock_wait lies inside a held range.',
        note='Covers the disjointness half of C18 only; the wake-up half (a waiter proceeds after unlock) needs the concurrent engine and is not claimed yet.  libstdc++ red-black '
             'rebalancing replaced by unbalanced-BST stand-ins with the same ordering contract; cv wait/notify are sequential stubs.  Found and fixed (b3d9cd8): locking the same empty range twice corrupted the index.',
        technique=TECH, design_ref='DESIGN.md §3 C18'),
}

NOT_APPLICABLE = {p: 'check under construction in this session (see DESIGN.md §3 for the plan); not claimed until its harness passes on the unchanged tree'
                  for p in ['C%02d' % i for i in range(1, 21)]}
