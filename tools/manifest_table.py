"""Per-property claims.  CHECKS: claimed properties.  NOT_APPLICABLE: everything not (yet) claimed, with the reason."""

TECH = 'bounded symbolic execution of the real code: clang-14 IR of /repo sources -> ir2c -> CBMC 6.11 (SAT), vacuity witnesses, native replay'

CHECKS = {
    'C15': dict(
        text='For every offset/length/interval inside the stated bounds the solver shows that all_parts() of range_split, '
             'range_split_power2 (full 64-bit width) and range_split_vi tile the range (adjacent, non-empty, one block each, union exact), '
             'that the small-note/preface/aligned/postface classification equals that list and that the aligned offsets enclose the range '
             'with < 1 interval of slack.  Bounded model checking is the right level: the property is a pure function of three integers and '
             'the interesting inputs (boundary alignments) are rare points the suite samples a handful of.',
        note='Bounds: symbolic interval only at reduced width (values < 2^5 quick, 2^7 thorough) because bit-blasted symbolic division does not scale; '
             'power-of-two and variable-interval variants at full 64-bit width; number of parts bounded by the unwinding (checked by unwinding assertions). '
             'Assumes offset+length+interval does not wrap 2^64.  Trusted: clang IR generation, ir2c (validated per run against the g++ build on 300 vectors), CBMC.',
        technique=TECH, design_ref='DESIGN.md §3 C15'),
    'C20': dict(
        text='For every path string up to the stated length over {/ . a NUL}, for each of the 30 one-path and 2 two-path operations of SubFileSystem, '
             'the solver shows that whatever reaches the underlying filesystem is either a null path (rejected) or exactly base + path with a lexical '
             'resolution that never climbs above the base (reference resolver in the harness), and conversely that every path whose prefixes stay inside '
             'the base is forwarded; plus the PATH_MAX length check for every base length.  The input space is a small alphabet with rare interesting '
             'strings ("a/../..", "..." , trailing slashes), which is what bounded symbolic execution covers completely.',
        note='Bounds: path length <= 5 (quick) / 8 (thorough); two-path operations with lengths <= 3/4; PATH_MAX shrunk to 32 in the harness build (platform constant; '
             'comparison logic unchanged).  Logging macros have empty bodies; __dynamic_cast of the one cast in init() is a harness stand-in.  Symlinks in the underlay are outside '
             'the property (lexical resolution).  Found and fixed (d53df53): legal paths such as "a/.." were refused.',
        technique=TECH, design_ref='DESIGN.md §3 C20'),
}

NOT_APPLICABLE = {p: 'check under construction in this session (see DESIGN.md §3 for the plan); not claimed until its harness passes on the unchanged tree'
                  for p in ['C%02d' % i for i in range(1, 21)]}
