"""Per-property claims.  CHECKS: claimed properties.  NOT_APPLICABLE: everything not (yet) claimed, with the reason."""

TECH = 'bounded symbolic execution of the real code: clang-14 IR of /repo sources -> ir2c -> CBMC 6.11 (SAT), vacuity witnesses, native replay'

CHECKS = {
    'C15': dict(
        text='For every offset/length/interval inside the stated bounds the solver shows that all_parts() of range_split, '
             'range_split_power2 (full 64-bit width) and range_split_vi tile the range (adjacent, non-empty, one block each, union exact), '
             'that the small-note/preface/aligned/postface classification equals that list and that the aligned offsets enclose the range '
             'with < 1 interval of slack.  Bounded model checking is the right level: the property is a pure function of three integers and '
             'the interesting inputs (boundary alignments) are rare points the suite samples a handful of.',
        note='Bounds: symbolic interval only at reduced width (values < 2^5 quick, 2^7 thorough) because bit-blasted symbolic division does not scale; '
             'power-of-two and variable-interval variants at full 64-bit width; number of parts bounded by the unwinding (checked by unwinding assertions). '
             'Assumes offset+length+interval does not wrap 2^64.  Trusted: clang IR generation, ir2c (validated per run against the g++ build on 300 vectors), CBMC.',
        technique=TECH, design_ref='DESIGN.md §3 C15'),
    'C20': dict(
        text='For every path string up to the stated length over {/ . a NUL}, for each of the 30 one-path and 2 two-path operations of SubFileSystem, '
             'the solver shows that whatever reaches the underlying filesystem is either a null path (rejected) or exactly base + path with a lexical '
             'resolution that never climbs above the base (reference resolver in the harness), and conversely that every path whose prefixes stay inside '
             'the base is forwarded; plus the PATH_MAX length check for every base length.  The input space is a small alphabet with rare interesting '
             'strings ("a/../..", "..." , trailing slashes), which is what bounded symbolic execution covers completely.',
        note='Bounds: path length <= 5 (quick) / 8 (thorough); two-path operations with lengths <= 3/4; PATH_MAX shrunk to 32 in the harness build (platform constant; '
             'comparison logic unchanged).  Logging macros have empty bodies; __dynamic_cast of the one cast in init() is a harness stand-in.  Symlinks in the underlay are outside '
             'the property (lexical resolution).  Found and fixed (d53df53): legal paths such as "a/.." were refused.',
        technique=TECH, design_ref='DESIGN.md §3 C20'),
    'C14': dict(
        text='For every iovector_view of up to 3 elements of 0..2 (quick) / 0..3 (thorough) bytes, every request size from 0 to beyond the total, every offset and every '
             'destination shape, the solver shows that each operation (sum, shrink_to, shrink_less_than, extract_front/back in their three forms, contiguous extracts, '
             'slice, memcpy_to/from, pipe_to) returns the count and bytes of the same operation on the flat byte string and leaves exactly the remaining bytes, with CBMC '
             'checking every load/store against exact-size element buffers and exact-size iovec arrays.',
        note='One operation per run (sequences of operations and the owning iovector/IOVectorEntity wrappers are not covered).  Elements live in static exact-size arrays '
             '(heap blocks made the SAT back end run out of memory); memcpy with a symbolic length is a bounded byte loop.  Found and fixed (1a147ad): iov_iterator read iov[0] of an empty view.',
        technique=TECH, design_ref='DESIGN.md §3 C14'),
    'C18': dict(
        text='Sequential inductive step on the real RangeLock + std::set header code: from every state reachable by two (quick) / three (thorough) symbolic try_lock_wait2 calls, one of '
             'try_lock_wait2 / try_lock_wait / adjust_range / unlock(handle) / unlock(range) with symbolic 64-bit arguments (zero length, saturating end, nested, adjacent), then a symbolic '
             'probe: a granted range never shares a byte with a held one, a non-conflicting request is granted, the conflict report of try_lock_wait lies inside a held range.',
        note='Sequential jobs cover the disjointness half; the wake-up half (a waiter on a conflicting range proceeds after unlock; 2 lockers with overlapping symbolic ranges) runs on the contract-level thread engine (wake_2t, ~6 min).  libstdc++ red-black '
             'rebalancing replaced by unbalanced-BST stand-ins with the same ordering contract; cv wait/notify are sequential stubs.  Found and fixed (b3d9cd8): locking the same empty range twice corrupted the index.',
        technique=TECH, design_ref='DESIGN.md §3 C18'),
    'C01': dict(
        text='(a) spinlock / ticket_spinlock: mutual exclusion for every interleaving of 2 threads x 2 rounds and 3 threads x 1 round of the real lock/try_lock/unlock, under SC and x86-TSO '
             '(native CBMC threads).  (b) photon mutex on the kernel contract K: 2 lockers (optionally one yield-retry, optionally an interrupter) with symbolic timeouts (never / finite / expired): at most one '
             'thread inside, lock()==0 iff the caller is the owner, a failed lock leaves the caller out of every queue with errno ETIMEDOUT or the interrupter\'s, the mutex is free and its queue empty at '
             'quiescence, no deadlock.  The real mutex::lock/try_lock/unlock, do_mutex_unlock, ScopedLockHead, indirect_lock, thread_interrupt are inlined into resumable thread entries; the solver picks the schedule.',
        note='Bounded context switching: cooperative scheduling (switch at blocking calls / yields: what one vCPU can do) with symbolic timeout and interrupt events, <= 6-7 slices; pre-emption inside the primitive on '
             'several vCPUs, qspinlock, recursive_mutex / seq_mutex and 3 lockers (thorough tier, 30 GB) are outside the quick claim.  K (rt/kcontract.h) stands for prepare_usleep / switch / resume_threads / '
             'prelocked_thread_interrupt.  Spin iterations are cut by await-as-assume.',
        technique='bounded-context-switch sequentialisation of the real code (ir2c --thread) + CBMC; native CBMC threads with --mm sc/tso for the spin locks', design_ref='DESIGN.md §3 C01, §7.1'),
    'C02': dict(
        text='photon semaphore on the kernel contract K (real wait_interruptible / signal / try_resume / try_subtract inlined): 1 waiter (demand 1..2, timeout never/finite/expired), 1 signaller (0..2 tokens), optionally an interrupter of the waiter, or a second running waiter (out-of-order mode quick, in-order thorough), '
             'initial count 0..2, in-order and out-of-order mode: tokens conserved at quiescence, a failed wait takes nothing, and in every stuck end state the blocked head waiter is not covered by the count (no lost wake-up); the same with a second, constructed sleeping waiter queued behind the running one and a signaller that may take a token itself (sem_2w_ghost_io).  '
             'One-step check of the real signal() / try_resume from every queue state of <= 2 sleeping waiters (demands 1..4, count 0..3): exactly the waiters covered under the mode\'s rule are woken, once, every lock is released, and signal() never spins on a lock nobody can release.',
        note='Known finding (not repaired, known_findings.json): in out-of-order mode signal() self-deadlocks when its scan finds a covered waiter (job signal_step_ooo).  Only 2 running threads fit the memory budget on Layer B (9-10 GB, 4-6 min each); three running threads ran out of memory at 32 GB.  signal() from a plain OS thread and '
             'destroy-after-wait need pre-emption inside the primitive: not covered.',
        technique='bounded-context-switch sequentialisation of the real code (ir2c --thread) + CBMC', design_ref='DESIGN.md §3 C02, §7.1'),
    'C03': dict(
        text='condition_variable on K (real cvar_do_wait, waitq::resume_one/all, mutex or spinlock): a waiter that entered wait() before the notifier took the lock is found by notify_one (no lost notification), '
             'wait() returns with the lock held, -1 only as ETIMEDOUT and only with a finite deadline, notify_all wakes every waiter without deadline and no more than were waiting; notify issued while holding or after releasing the lock (symbolic).',
        note='1 waiter + 1 notifier with spinlock and with mutex (quick), 2 waiters + notify_all with a spinlock; cooperative scheduling.  The enqueue-before-deferred-unlock order of the real prepare_usleep holds by construction in K '
             '(a Layer-A obligation that was not built).',
        technique='bounded-context-switch sequentialisation of the real code (ir2c --thread) + CBMC', design_ref='DESIGN.md §3 C03, §7.1'),
    'C05': dict(
        text='Only the run-queue protection lock is checked: the real asymmetric_spinLock admits never both the owner vCPU (foreground) and a remote vCPU (background) for every interleaving of 1 foreground x 1-2 rounds and 1-2 background '
             'try-lockers under sequential consistency (native CBMC threads).',
        note='This is a small fragment of C05: thread_create / die / join / migrate / work stealing on the real run queue (the planned Layer-A one-step checks), thread pools and stack allocators are NOT covered.  Under CBMC\'s x86-TSO '
             'model the same harness reports a mutual-exclusion violation (store->load reordering in foreground_lock); it could not be reproduced natively on this loaded host and is recorded in DESIGN 7.3 as a solver-only observation, not as a VIOLATION.',
        technique='native CBMC threads over the IR-derived C of the real lock (all interleavings, SC)', design_ref='DESIGN.md §3 C05, §7.3'),
    'C06': dict(
        text='qrwlock (header-only, real lock/unlock/do_lock/try_wake/__trylock*/__unlock_*) with condition_variable and spinlock hand-over as contracts: 2 lockers in W/R, R/W and symbolic modes (3 symbolic lockers in thorough), '
             'timeouts never/finite, every holder yields inside: a writer is alone, readers never share with a writer, a failed lock leaves lock_state free at quiescence, and no locker without deadline is left blocked (deadlock check).  '
             'qrw_W_R_mv: the two lockers on different vCPUs (pre-emption before every atomic operation).  rwlock (real rwlock::lock / unlock with the real mutex + condition_variable on kernel contract K, waiter marks read from the real wait queue): W/R, R/W and 2 symbolic lockers, same assertions on rwlock.state.',
        note='qrwlock\'s own protocol is real; cv / spinlock re-acquisition are the contracts of rt/ksync.h (their subject is C03).  A lost-wake-up change that needs 4 lockers is caught by the thorough job qrw_W_R_Wt_R only.  Interrupts, try_lock and pre-emption between atomic steps on several vCPUs are outside.',
        technique='bounded-context-switch sequentialisation of the real code (ir2c --thread) + CBMC', design_ref='DESIGN.md §3 C06, §7.1'),
    'C07': dict(
        text='MPMC, batch-MPMC and SPSC ring queues (capacity 2) as sequentialised threads that may be pre-empted before every atomic operation: 1 producer + 1 consumer, symbolic 64-bit start position (wrap-around included): '
             'every successfully pushed element is popped exactly once (drain at the end), nothing else is returned, per-producer order, never more than capacity.',
        note='Very small bound (1P+1C, 1-2 operations each, <= 5-6 slices, SC only) because pre-emptive sequentialisation costs 4 min / 4 GB per job; The RingChannel notification protocol (consumer idle registration vs. producer idler check; sender notification on a full ring) is decided in the thorough tier only (chan_1p1c, chan_full_1p1c: 9 min each; semaphores as contracts, state invariant judged between any two slices).  More producers/consumers and TSO are outside.  '
             'Retry loops are unwound 4 times without unwinding assertions (stated bound).',
        technique='bounded-context-switch sequentialisation with pre-emption at atomic operations (ir2c --thread --cs-atomic-only) + CBMC', design_ref='DESIGN.md §3 C07, §7.1'),
    'C09': dict(
        text='channel<int> (thread/go.h, real unbuffered_send/recv, buffered paths over the real lock-free ring) with mutex / cv / semaphore as contracts: scenario 1S(2 values)+1R unbuffered (quick), 2S+1R and 2 try_send+2R (thorough; 3-20 min each with the symbolic clock; 2S+2R gave no verdict in 40 min and is not registered): every value whose send returned true is received exactly once, nothing else is received, per-sender order, failures only by timeout/close, and in a stuck end state a blocked sender and a blocked '
             'receiver never coexist (buffered: no receiver blocked with an item queued, no sender blocked with a free slot).',
        note='Found and fixed (13935a3): with one receiver and two senders unbuffered_send overwrote a value still in the hand-off slot (send(1) returned true, 1 was never delivered) - confirmed on the live runtime; (b115053): a sender whose deadline had passed retracted another sender\'s value from the slot.  The buffered paths (real lock-free ring) do not fit and are not decided.  '
             'Cooperative scheduling with symbolic timeouts; select() and multi-vCPU pre-emption inside go.h are outside.',
        technique='bounded-context-switch sequentialisation of the real code (ir2c --thread) + CBMC, sync primitives as contracts', design_ref='DESIGN.md §3 C09, §7.1'),
    'C13': dict(
        text='HTTP/1.1 body framing on the real net/http/body.cpp (BodyReadStream, ChunkedBodyReadStream incl. pos_next_chunk / get_new_chunk / read_from_line_buf / read_from_stream, BodyWriteStream, ChunkedBodyWriteStream) over a symbolic wire: '
             'well-formed chunked / Content-Length / close-delimited bodies are read back exactly (payload, then end of body, nothing beyond the body consumed) for every split into partial-body + recv fragments and every caller read size; '
             'truncated input yields a prefix and never "complete"; arbitrary byte strings give the same result under two deliveries and never touch bytes that were not received; writers emit the reference coding and round-trip through the readers.',
        note='Bounds: payload <= 2 bytes (quick) / 3-4 (thorough), <= 2-3 chunks, arbitrary strings <= 5 (quick) / 7 bytes.  Stub stream (recv returns 1..k bytes), snprintf("%zx") modelled exactly for values < 65536, '
             'line-buffer storage is exactly the received bytes (the 4096 constant is real).  Header parsing (HeadersBase::parse / reset, real headers.cpp): result independent of the bytes behind the message, entries inside the received bytes, <= 12 (16 thorough) bytes; found and fixed (34e2e4b): parse read one byte past the received data; URL / cookies / websocket are outside.',
        technique=TECH, design_ref='DESIGN.md §3 C13'),
    'C12': dict(
        text='RPC serialization on the real rpc/serialize.h + common/iovector.*: six message shapes (int/buffer/string; nested message + array + aligned_buffer; CheckedMessage; fixed_buffer + iovec_array; sorted_map; buffer) - '
             '(1) round trip: symbolic field contents and lengths, serialised, re-cut at symbolic points into 1-3 iovecs (zero-length pieces, body cut through the copying path), deserialised, field-wise equal; '
             '(2) hostile bytes: arbitrary body (64-bit lengths, pointer bits) + 0..4 (quick) / 6 payload bytes: accepted iff every length fits sequentially (and checksum / allocation succeed), every accepted field denotes exactly its bytes, '
             'every byte is read under CBMC bounds checks, accessors (sv(), get(), sorted_map iterators/find) stay inside; (3) checked messages: hashed bytes are payload||body in order on both sides, an altered byte is rejected.',
        note='crc32c bound to a recording fold (the real table code does not compile with clang and builds its table at run time); IOAlloc default allocators asserted unreachable; pieces are end-aligned in exact-size static objects.  '
             'Found and fixed: slice::anchor unchecked (abe0d44), iovec_array accepted on failed extract (2708f23), sv()/get() on zero-length / mis-sized fields (9592269).  Sorted maps with more than one entry and sorted_map_factory are outside.',
        technique=TECH, design_ref='DESIGN.md §3 C12'),
    'C16': dict(
        text='File adaptors vs. a plain reference file: (a) the real AlignedFileAdaptor::pread/pwrite (quick) and preadv2_mutable/pwritev2_mutable + two-operation sequences (thorough) over a logging in-memory underlay (size 1..16, alignment 2/4, align_memory on/off, '
             'symbolic offset < size and length): same counts, data, final content and size as the reference, every underlay request aligned in offset, length and (when requested) address, bounce buffer freed; '
             '(b) the real FixedSizeLinearFile<range_split / range_split_power2>, VariableSizeLinearFile and StripeFile pread/pwrite over 2-3 in-memory sub-files (units 2,3,4): counts clipped at the composite end, data in order, final content equal to the flat reference, every sub-file request inside its sub-file.',
        note='Requests starting at or after EOF are assumed away (outside the property).  malloc/posix_memalign/free and operator new are mapped to exact-size static pools; underlay and sub-files are well-behaved (no faults).  '
             'Vectored I/O on the composites (VirtualFile::piov_copy) and the const-iovec wrappers are outside.  Found and fixed (1a7642e): out-of-bounds intermediate pointer in AlignedFileAdaptor::pwrite (pointer-arithmetic-only finding).',
        technique=TECH, design_ref='DESIGN.md §3 C16'),
    'C04': dict(
        text='Sleep / timeout / interrupt on the real thread/thread.cpp scheduler core, sequential: (1) SleepQueue (the deadline heap): from every valid heap of n <= 6 distinct threads with symbolic 64-bit deadlines one real push / pop / pop_front / up / down '
             'keeps the heap property, the idx back-pointers and the element multiset (inductive step over the representation invariant); (2) two consecutive blocking calls (thread_yield / thread_usleep with a symbolic timeout) of one thread while the rest of the '
             'vCPU (another runnable thread, real thread_interrupt calls same- or cross-vCPU, one real resume_threads round, symbolic monotone clock) runs in between: usleep returns 0 only at or after its deadline, -1 with exactly the errno of an interrupt issued during '
             'that sleep, an interrupt is consumed once and never leaks into a later call; (3) Timeout arithmetic at full 64-bit width (saturation, ordering); (4) one resume_threads() / idler() round from every valid vCPU state of 3 sleepers/standby/ready threads: '
             'exactly the expired sleepers and the standby threads become runnable, once, with their reason preserved, queues stay consistent.',
        note='switch_context (inline asm) and update_now are harness stand-ins (run the other side\'s script / any later clock value); operator new from a static pool; spin-waits cut (single OS thread).  Outside: histories longer than two blocking calls, more than one '
             'other runnable thread, true concurrency of a cross-vCPU interrupt with resume_threads on the target vCPU, the machine context switch, the clock source, work stealing.  Found and fixed: thread_yield left the interrupt reason pending (0f5fe81), '
             'Timeout::operator<= (ad23d59).  Known finding (not repaired, known_findings.json): an interrupt delivered to a READY thread before its first run fails its first later sleep.',
        technique=TECH, design_ref='DESIGN.md §3 C04, §7.3'),
    'C10': dict(
        text='Socket I/O loops of the real net/basic_socket.cpp (doio_once / doio_n via read/write/send/recv/readv/writev/sendmsg/recvmsg and their _n forms, BufStep / BufStepV over the real iovector code) and net/kernel_socket.cpp KernelSocketStream::read/write/readv/writev/recv/send '
             'over a stub kernel socket whose every call moves a symbolic prefix, fails with EINTR / EAGAIN (bounded) or a hard errno, with EOF at a symbolic offset: peer-side bytes are exactly a prefix of the written stream in order and exactly once, reader buffers equal the '
             'consumed prefix and nothing beyond is touched, full-count semantics of the _n forms unless EOF / error, single-shot calls return 1..count, -1 exactly on a hard failure with errno preserved (ETIMEDOUT for a timed-out wait), a wait happens only after EAGAIN, in the right '
             'direction on the right fd with the deadline fixed at the start of the call, no syscall after a failure.  Plus one inductive step of the real io/epoll.cpp engine bookkeeping (2 fds x {read, write}): wait_and_fire_events wakes exactly the waiters whose direction was '
             'reported, once, leaves every other waiter registered and armed; wait_for_fd removes its own interest on every exit and refuses a second waiter on the same (fd, direction).',
        note='Bounds: flat buffers 0..6 bytes, <= 2-3 iovecs of 0..2 bytes, <= 1 EINTR + 1 EAGAIN per call (quick; 9 bytes / 2+2 retries thorough), two consecutive calls.  The kernel socket, the master engine\'s wait_for_fd, epoll_ctl/epoll_wait, thread_usleep/interrupt are '
             'contract stubs (rt/sockstub.c, harness/C10/h_epoll.cpp).  Outside: real kernel buffers and two live endpoints, io_uring / epoll-ng / select engines, TLS and Unix-domain specifics, sendfile, concurrent connections as real photon threads (the engine step is a one-step check over an invariant).',
        technique=TECH, design_ref='DESIGN.md §3 C10'),
    'C11': dict(
        text='RPC out-of-order engine (real rpc/out-of-order-execution.cpp: issue_operation / wait_completion / issue_wait, phaselock, leader loop) with mutex / condition_variable / thread_interrupt as contracts and the three callbacks '
             '(issue, header read = do_completion, body read = do_collect) as harness code with blocking points: 2 concurrent callers on one vCPU, the wire delivers 1 response for either caller or an unknown tag in any order and then fails, '
             'per-call deadline never / finite expiring at any blocking point (between header and body included): a successful call holds exactly the payload produced for its own tag, do_collect is only entered for a call that has not returned, the call being collected '
             'does not return while the reader is inside its buffer, every call is unregistered at quiescence.',
        note='Found and fixed (6be8dac): a follower whose deadline expired while the reader was already collecting its response returned ETIMEDOUT at once and the reader went on writing into the dead stack frame (confirmed on the live runtime, harness/C11/native_follower_timeout.cpp).  '
             'std::unordered_map<tag, ctx*> is a 2-slot array stand-in with the same find / insert / erase contract; the Callback delegate is specialised so callbacks are direct calls; A 3-caller scenario (a third caller returning while the reader collects for a timed-out follower) runs in the thorough tier (40-60 min).  StubImpl / Skeleton framing, real sockets, more than 3 callers, duplicate tags and user-supplied tags are outside.',
        technique='bounded-context-switch sequentialisation of the real code (ir2c --thread) + CBMC, sync primitives as contracts', design_ref='DESIGN.md §3 C11, §7.3'),
    'C17': dict(
        text='Single-reader data path of the cache layer on the real fs/cache/store.cpp (ICacheStore::preadv2 / try_refill_range / do_refill_range / prefetch / tryget_size, RangeLock, iovector code) over a symbolic source file (1..8 bytes quick / 12 thorough, page = refill unit = 4), a media model '
             '(byte array + present bitmap, initially any subset of pages cached with media == source, or size not yet known) and symbolic faults (short / failed source reads, media reads and writes, failed hole query, allocator, fstat): the count is min(len, size - offset) without faults and never more, '
             'every delivered byte equals the source byte, nothing beyond the count or outside the caller\'s segments is written, source and media accesses stay inside [0, size), only source bytes are written to media at their own offsets, a fault-free read leaves its range cached and never drops cached pages, '
             'no range stays locked; plus hole-query lemmas for the real RangeModule (hit = fully covered, miss = aligned non-empty hull of the uncovered bytes).',
        note='The property statement is wider than this check: concurrent readers / refills, the refill thread pool, eviction while open, directory re-use, FileCacheStore / FileCachePool / CachedFs over real file systems (fiemap, fallocate), write-back modes are NOT encoded (listed in the evidence).  '
             'The store is a harness subclass of ICacheStore (hole query over the bitmap or the real RangeModule); mutex / cv are sequential no-ops; IOVectorEntity<4,0> instead of <32,4> (shipped size in a thorough job).',
        technique=TECH, design_ref='DESIGN.md §3 C17'),
}

_PENDING = 'check under construction in this session (see DESIGN.md §3 for the plan); not claimed until its harness passes on the unchanged tree'
NOT_APPLICABLE = {p: _PENDING for p in ['C%02d' % i for i in range(1, 21)]}
NOT_APPLICABLE.update({
    'C19': 'encoded but not decidable within this sandbox: the harness (harness/C19/h_objcache.cpp: real common/expirecontainer.cpp ObjectCacheBase::ref_acquire / ref_release / expire on the contract-level thread engine, typed item / object pools, '
           'array stand-in for the unordered_set) translates and runs, but already 2 execution slices of 2 users give 16.8 M variables / 75 M clauses and the SAT back end runs out of memory at 9-10 GB (7 slices: no verdict in 1800 s).  Measured cause: the cache items are reached '
           'only through pointers that travel through the container slots and the intrusive expiry list, so CBMC resolves every field store through them (reference count, recycle marker, list links, vtable pointer in the deleting destructor) as a byte-level update of '
           'the whole item object (28 000 byte_extract / byte_update operations in 2 slices) - the pointer-rich heap case the technique is weak on.  A verdict needs at least 7 slices (acquire / construct / share / release / recycle); it is out of reach, and no abstract model was substituted (DESIGN 7.5).',
    'C08': 'not encoded: WorkPool::impl::main_loop creates photon threads dynamically (thread_create / thread pool / thread_yield_to), runs tasks that block through Delegate<void> function pointers and sits on the '
           'RingChannel notification protocol; the sequentialiser built here has a fixed set of thread entries and no resumable callees, so the dispatcher protocol (record copied before the slot is reused, call() returns '
           'after its task) cannot be executed symbolically within this session\'s engine (DESIGN 7.5).  No abstract model was substituted.',
})
