#!/bin/sh
# Nothing to build: the framework is Python + C shims compiled per run.  Verify the tools exist.
set -e
for t in clang++-14 cbmc gcc g++ python3 z3; do command -v $t >/dev/null || { echo "missing tool: $t"; exit 1; }; done
mkdir -p "$(dirname "$0")/../evidence" "$(dirname "$0")/../replays"
python3 -c "import sys; sys.path.insert(0,'$(dirname "$0")'); import vlib" 
echo setup ok
