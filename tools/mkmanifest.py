#!/usr/bin/env python3
"""Regenerates /verif/MANIFEST.json from the per-property table below and validates it."""
import json, os, sys
V = os.path.dirname(os.path.dirname(os.path.abspath(__file__)))
sys.path.insert(0, os.path.join(V, 'tools'))
from manifest_table import CHECKS, NOT_APPLICABLE

def main():
    checks = []
    for pid, c in sorted(CHECKS.items()):
        checks.append(dict(property_id=pid, quick_cmd='./check %s --tier quick' % pid, thorough_cmd='./check %s --tier thorough' % pid,
                           evidence_file='/verif/evidence/%s.json' % pid, replay_cmd_template='./check %s --replay {path}' % pid,
                           engine=c.get('engine', 'ir2c+cbmc'),
                           level_claimed=dict(category='model_checking', text=c['text'], design_ref=c.get('design_ref', 'DESIGN.md §3')),
                           level_note=c['note'], technique=c['technique']))
    m = dict(version=1,
             setup_cmd='sh tools/setup.sh',
             hooks=dict(guard='ALIBABA_PHOTONLIBOS_VERIF', enable='not needed: harness TUs include the real sources textually; no hook was added to /repo',
                        baseline_off_cmd='ctest --test-dir /repo/_build -j8 --timeout 900', source_commits=[], add_only=True),
             engines=[dict(name='ir2c+cbmc', path='tools/ir2c.py', serves_properties=sorted(CHECKS),
                           kind_free_text='clang-14 IR of the real sources -> own IR-to-C translator -> CBMC 6.11 bounded symbolic execution (SAT); '
                                          'sequentialised bounded-context-switch scheduler for concurrency')],
             checks=checks,
             notes='Every check regenerates its encoding from /repo on each run. Exit 0 held / 1 VIOLATION / 2 check could not reach a verdict (broken, never "held").',
             not_applicable=[dict(property_id=p, reason=r) for p, r in sorted(NOT_APPLICABLE.items()) if p not in CHECKS])
    json.dump(m, open(os.path.join(V, 'MANIFEST.json'), 'w'), indent=1)
    try:
        import jsonschema
        jsonschema.validate(m, json.load(open('/root/.vp/MANIFEST.schema.json'))); print('MANIFEST valid;', len(checks), 'checks,', len(m['not_applicable']), 'not applicable')
    except ImportError:
        print('written (jsonschema not available for validation)')
main()
