#!/usr/bin/env python3
"""Runner for the solver-based checks.

pipeline per job (everything regenerated from /repo's working tree on every run):
  harness.cpp (+ real /repo sources) --clang++-14--> LLVM IR --ir2c--> C --cbmc--> verdict
  optional translation validation: gcc build of the generated C vs g++ build of the
  same harness over the real sources, compared on input vectors
  counterexample -> trace -> replay file -> native replay
"""
import os, sys, json, re, subprocess, time, tempfile, shutil, hashlib, random, resource, importlib.util
import concurrent.futures as cf

VERIF = os.path.dirname(os.path.dirname(os.path.abspath(__file__)))
REPO = os.environ.get('VERIF_REPO', '/repo')
RT = os.path.join(VERIF, 'rt')
IR2C = os.path.join(VERIF, 'tools', 'ir2c.py')

CLANG = ['clang++-14', '-std=c++14', '-I%s/include' % REPO, '-I' + RT, '-I' + REPO, '-DNDEBUG', '-O1', '-fno-exceptions',
         '-fno-vectorize', '-fno-slp-vectorize', '-fno-unroll-loops', '-msse4.2', '-mcx16', '-S', '-emit-llvm',
         '-Wno-everything', '-fno-threadsafe-statics', '-DVERIF_REPO="%s"' % REPO]
CBMC_BASE = ['--unwinding-assertions', '--pointer-overflow-check', '--undefined-shift-check', '--drop-unused-functions',
             '--no-malloc-may-fail', '--no-standard-checks', '--bounds-check', '--pointer-check', '--div-by-zero-check',
             '--pointer-primitive-check']


class Job:
    def __init__(s, name, src, entry, tier='quick', defines=(), unwind=8, unwindset=(), ir2c=(), shims=(), cbmc=(),
                 timeout=600, mem_gb=5, clang=(), tv=False, tv_vectors=300, tv_link=(), kf=None, desc='', bounds='',
                 nochecks=False, kind='cbmc', fn=None, small=(), roots=None, unwinding_assertions=True):
        s.name = name; s.src = src; s.entry = entry; s.tier = tier; s.defines = list(defines); s.unwind = unwind
        s.unwindset = list(unwindset); s.ir2c = list(ir2c); s.shims = list(shims); s.cbmc = list(cbmc)
        s.timeout = timeout; s.mem_gb = mem_gb; s.clang = list(clang); s.tv = tv; s.tv_vectors = tv_vectors
        s.tv_link = list(tv_link); s.kf = kf; s.desc = desc; s.bounds = bounds; s.nochecks = nochecks
        s.kind = kind; s.fn = fn; s.small = list(small); s.roots = roots; s.unwinding_assertions = unwinding_assertions


def sh(cmd, timeout=None, mem_gb=None, cwd=None, env=None):
    def lim():
        os.setsid()
        if mem_gb:
            b = int(mem_gb * (1 << 30)); resource.setrlimit(resource.RLIMIT_AS, (b, b))
    t0 = time.time()
    p = subprocess.Popen(cmd, stdout=subprocess.PIPE, stderr=subprocess.PIPE, cwd=cwd, env=env, preexec_fn=lim)
    try:
        out, err = p.communicate(timeout=timeout)
        to = False
    except subprocess.TimeoutExpired:
        try: os.killpg(p.pid, 9)
        except Exception: pass
        out, err = p.communicate(); to = True
    return dict(rc=p.returncode, out=out.decode('utf8', 'replace'), err=err.decode('utf8', 'replace'), timeout=to, s=time.time() - t0)


def build_c(job, wd):
    """clang -> IR -> ir2c -> C.  Returns (cfile, info) or raises RuntimeError."""
    src = job.src if os.path.isabs(job.src) else os.path.join(VERIF, 'harness', job.src)
    ll = os.path.join(wd, job.name + '.ll'); c = os.path.join(wd, job.name + '.c')
    cmd = CLANG + ['-D' + d for d in job.defines] + job.clang + ['-o', ll, src]
    r = sh(cmd, timeout=300)
    if r['rc'] != 0: raise RuntimeError('clang failed: ' + r['err'][-3000:])
    cmd = [sys.executable, IR2C, ll, '-o', c] + sum([['--root', r] for r in (job.roots or ['^@%s$' % job.entry])], []) + job.ir2c
    r2 = sh(cmd, timeout=300)
    if r2['rc'] != 0: raise RuntimeError('ir2c failed: ' + r2['err'][-3000:])
    m = re.search(r'functions: (\d+) translated, externals: (.*)', r2['err'])
    info = dict(clang_s=round(r['s'], 2), ir2c_s=round(r2['s'], 2), translated=int(m.group(1)) if m else 0,
                externals=m.group(2).split() if m else [], warnings=[l for l in r2['err'].split('\n') if l.startswith('WARNING')][:10])
    fl = re.search(r'FUNCTIONS: (.*)', r2['err'])
    info['functions'] = fl.group(1).split() if fl else []
    return c, info


def shim_paths(job):
    return [p if os.path.isabs(p) else os.path.join(RT, p) for p in (['inputs.c', 'mem.c'] + job.shims)]


def cbmc_cmd(job, cfile, extra=()):
    cmd = ['cbmc', cfile] + shim_paths(job) + ['-I', RT, '--function', 'f_' + job.entry]
    if job.unwind is not None: cmd += ['--unwind', str(job.unwind)]
    if job.unwindset: cmd += ['--unwindset', ','.join(job.unwindset)]
    base = list(CBMC_BASE)
    if job.nochecks:
        base = ['--unwinding-assertions', '--drop-unused-functions', '--no-malloc-may-fail', '--no-standard-checks']
    if not job.unwinding_assertions: base = [b for b in base if b != '--unwinding-assertions']
    return cmd + base + job.cbmc + list(extra)


def parse_json_ui(text):
    """returns (results list, stats dict, messages)"""
    try:
        data = json.loads(text)
    except Exception:
        # truncated output (timeout/oom): salvage nothing
        return None, {}, text[-2000:]
    res = None; stats = {}; msgs = []
    for el in data:
        if 'result' in el: res = el['result']
        if 'messageText' in el:
            t = el['messageText']
            if not t.startswith(('Unwinding loop', 'Not unwinding', 'Running propositional', 'Building error trace')): msgs.append(t)
            m = re.match(r'(\d+) variables, (\d+) clauses', t)
            if m: stats['variables'] = max(stats.get('variables', 0), int(m.group(1))); stats['clauses'] = max(stats.get('clauses', 0), int(m.group(2)))
            m = re.match(r'Generated (\d+) VCC\(s\), (\d+) remaining after simplification', t)
            if m: stats['vccs'] = int(m.group(1)); stats['vccs_remaining'] = int(m.group(2))
            m = re.match(r'Runtime Solver: ([0-9.e+-]+)s', t)
            if m: stats['solver_s'] = stats.get('solver_s', 0) + float(m.group(1))
            m = re.match(r'Runtime Symex: ([0-9.e+-]+)s', t)
            if m: stats['symex_s'] = float(m.group(1))
            if t.startswith('SAT checker: instance is') or t.startswith('SMT2 solver') : stats['queries'] = stats.get('queries', 0) + 1
            m = re.match(r'size of program expression: (\d+) steps', t)
            if m: stats['steps'] = int(m.group(1))
        if 'cProverStatus' in el: stats['cprover_status'] = el['cProverStatus']
    return res, stats, '\n'.join(msgs[-15:])


def classify(results):
    """split solver results into user assertions, witnesses, unwinding assertions, memory-safety checks"""
    user_ok, user_fail, wit_ok, wit_bad, unw_fail, mem_fail, nmem = [], [], [], [], [], [], 0
    for r in results:
        d = r.get('description', ''); p = r.get('property', ''); st = r.get('status')
        if d.startswith('one vCPU: a thread spins'):      # name the site: a known finding must not hide a different self-deadlock
            d += ' @' + str((r.get('sourceLocation') or {}).get('function', '?'))
        if d.startswith('WITNESS'):
            (wit_ok if st == 'FAILURE' else wit_bad).append(d)
        elif '.unwind.' in p or 'unwinding assertion' in d:
            if st == 'FAILURE': unw_fail.append(p)
        elif '.assertion.' in p:
            if st == 'SUCCESS': user_ok.append((p, d))
            elif st == 'FAILURE': user_fail.append((p, d))
        else:
            nmem += 1
            if st == 'FAILURE': mem_fail.append((p, d))
    return dict(user_ok=user_ok, user_fail=user_fail, wit_ok=wit_ok, wit_bad=wit_bad, unw_fail=unw_fail, mem_fail=mem_fail, nmem=nmem)


def get_trace_inputs(job, cfile, prop, wd):
    cmd = cbmc_cmd(job, cfile, ['--trace', '--property', prop])
    r = sh(cmd, timeout=job.timeout, mem_gb=job.mem_gb * 2)
    ins = {}
    for m in re.finditer(r'verif_inputs\[(\d+)[a-z]*\]=(-?\d+)', r['out']):
        ins[int(m.group(1))] = int(m.group(2)) & (2**64 - 1)
    n = max(ins) + 1 if ins else 0
    tr = os.path.join(wd, job.name + '.trace.txt')
    open(tr, 'w').write(r['out'][-400000:])
    return [ins.get(i, 0) for i in range(n)], tr


def native_build(job, cfile, wd, which):
    """which='c': gcc build of generated C; which='cpp': g++ build of the harness over the real sources"""
    exe = os.path.join(wd, '%s.%s.exe' % (job.name, which))
    nobj = os.path.join(wd, 'native_%s_%s.o' % (job.name, which))
    if which == 'c':
        r = sh(['gcc', '-O1', '-w', '-c', '-DVERIF_ENTRY=f_' + job.entry, os.path.join(RT, 'native.c'), '-o', nobj])
        if r['rc']: return None, r['err']
        shims = [p for p in shim_paths(job)]
        dflags = [a for a in job.cbmc if a.startswith('-D')]
        r = sh(['gcc', '-O1', '-w', '-fno-strict-aliasing', '-DVERIF_NATIVE', '-I', RT, cfile] + dflags + shims + [nobj, '-o', exe], timeout=300)
    else:
        r = sh(['gcc', '-O1', '-w', '-c', '-DVERIF_ENTRY=' + job.entry, os.path.join(RT, 'native.c'), '-o', nobj])
        if r['rc']: return None, r['err']
        src = job.src if os.path.isabs(job.src) else os.path.join(VERIF, 'harness', job.src)
        r = sh(['g++', '-std=c++14', '-O1', '-w', '-fno-strict-aliasing', '-msse4.2', '-mcx16', '-DNDEBUG', '-DVERIF_NATIVE_CPP', '-I%s/include' % REPO, '-I' + RT, '-I' + REPO,
                '-DVERIF_REPO="%s"' % REPO] + ['-D' + d for d in job.defines] + [src, nobj] + job.tv_link + ['-o', exe, '-lpthread'], timeout=600)
    if r['rc']: return None, r['err'][-3000:]
    return exe, ''


def gen_vectors(job, n, seed):
    rnd = random.Random(seed)
    small = job.small or [0, 1, 2, 3, 4, 5, 7, 8, 15, 16]
    big = [2**64 - 1, 2**63, 2**32, 2**32 - 1, 2**63 - 1, 2**64 - 2, 4096, 4095, 65535]
    lines = []
    for i in range(n):
        mode = rnd.random()
        v = []
        for k in range(96):
            x = rnd.random()
            if mode < 0.6 or x < 0.6: v.append(rnd.choice(small))
            elif x < 0.8: v.append(rnd.choice(big))
            else: v.append(rnd.getrandbits(64))
        lines.append(' '.join(map(str, v)))
    return lines


def translation_validation(job, cfile, wd, seed):
    ec, e1 = native_build(job, cfile, wd, 'c')
    ep, e2 = native_build(job, cfile, wd, 'cpp')
    if not ec or not ep:
        return dict(ok=False, error='native build failed: ' + (e1 or e2)[-1500:])
    vf = os.path.join(wd, job.name + '.vec')
    open(vf, 'w').write('\n'.join(gen_vectors(job, job.tv_vectors, seed)) + '\n')
    a = sh([ec, vf], timeout=300); b = sh([ep, vf], timeout=300)
    runs_a = a['out'].split('V ')[1:]; runs_b = b['out'].split('V ')[1:]
    mism = 0; complete = 0; first = None
    for x, y in zip(runs_a, runs_b):
        if x != y:
            mism += 1
            if first is None: first = (x[:400], y[:400])
        if 'END' in x: complete += 1
    if len(runs_a) != len(runs_b): mism += 1
    return dict(ok=(mism == 0 and len(runs_a) > 0), vectors=len(runs_a), completed_past_assumptions=complete, mismatches=mism, first_mismatch=first)


def native_replay(job, cfile, wd, inputs):
    """re-executes a solver counterexample: on the g++ build over the real sources when it links, else on the gcc build of the generated C"""
    out = {}
    vf = os.path.join(wd, job.name + '.replay.vec'); open(vf, 'w').write(' '.join(map(str, inputs)) + '\n')
    for which in ('cpp', 'c'):
        exe, err = native_build(job, cfile, wd, which)
        if not exe:
            out[which] = 'build failed'; continue
        r = sh([exe, vf], timeout=120)
        fails = [l for l in r['out'].split('\n') if l.startswith('A 0') and 'WITNESS' not in l]
        out[which] = dict(failed_assertions=fails[:5], signalled=('SIGNAL' in r['out']), skipped=('SKIP' in r['out']))
    return out


def run_job(job, wd, seed):
    t0 = time.time()
    R = dict(job=job.name, desc=job.desc, bounds=job.bounds, entry=job.entry, unwind=job.unwind, status='broken', detail='')
    try:
        if job.kind == 'py':
            return job.fn(job, wd, seed, R)
        cfile, info = build_c(job, wd)
        R.update(info)
        missing = [e for e in info['externals'] if not e.startswith(('__CPROVER_', 'nondet_', 'verif_')) and not ext_defined(e, job)]
        if missing:
            R['detail'] = 'missing externals (no stub provided): ' + ' '.join(missing); return R
        if job.tv:
            tv = translation_validation(job, cfile, wd, seed); R['translation_validation'] = tv
            if not tv['ok']:
                R['detail'] = 'translation validation failed: ' + json.dumps(tv)[:1500]; return R
        cmd = cbmc_cmd(job, cfile, ['--json-ui', '--verbosity', '8'])
        R['cmd'] = ' '.join(a.replace(wd, '$WD').replace(VERIF, '/verif') for a in cmd)
        r = sh(['/usr/bin/time', '-f', 'RSSKB %M'] + cmd, timeout=job.timeout, mem_gb=job.mem_gb * 3)   # address-space limit: minisat's region realloc needs old + new mapped (observed: 'out of memory' at 4.9 GB resident under a 20 GB limit)
        m = re.search(r'RSSKB (\d+)', r['err']); R['rss_mb'] = int(m.group(1)) // 1024 if m else None
        R['cbmc_s'] = round(r['s'], 2)
        if r['timeout']:
            R['detail'] = 'solver timeout after %ds' % job.timeout; return R
        res, stats, msgs = parse_json_ui(r['out'])
        R.update(stats)
        if res is None:
            R['detail'] = 'no result from cbmc (rc=%s): %s %s' % (r['rc'], msgs[-1500:], r['err'][-500:]); return R
        c = classify(res)
        R['n_properties'] = len(res); R['n_user_assertions'] = len(c['user_ok']) + len(c['user_fail'])
        R['n_memory_checks'] = c['nmem']; R['witnesses'] = c['wit_ok']
        R['assertions'] = sorted(set(d for _, d in c['user_ok']))[:40]
        bad_status = sorted(set(r.get('status') for r in res) - {'SUCCESS', 'FAILURE'})
        real_fail = c['user_fail'] or c['mem_fail']
        # UNKNOWN next to a FAILURE is CBMC declining to decide properties behind a failed one: report the failure.
        if bad_status and not (real_fail and bad_status == ['UNKNOWN']):
            R['detail'] = 'solver did not decide every property (statuses %s): out of memory or internal error; %s' % (bad_status, msgs[-600:]); return R
        fails = c['user_fail'] + c['mem_fail']
        if fails:
            R['status'] = 'violation'; R['failed'] = [dict(property=p, description=d) for p, d in fails[:20]]
            inputs, tr = get_trace_inputs(job, cfile, fails[0][0], wd)
            R['counterexample_inputs'] = inputs; R['trace_file'] = tr
            if job.tv:
                R['native_replay'] = native_replay(job, cfile, wd, inputs)
            return R
        if c['unw_fail']:
            R['detail'] = 'unwinding assertion failed (bound too small): ' + ' '.join(c['unw_fail'][:5]); return R
        if c['wit_bad'] or not c['wit_ok']:
            R['detail'] = 'vacuity witness not reachable: ' + (', '.join(c['wit_bad']) or 'harness has no witness'); return R
        if True:
            R['status'] = 'held'
        return R
    except Exception as e:
        import traceback
        R['detail'] = 'exception: %s\n%s' % (e, traceback.format_exc()[-1500:]); return R
    finally:
        R['wall_s'] = round(time.time() - t0, 2)


_shim_cache = {}
def ext_defined(sym, job):
    for p in shim_paths(job):
        if p not in _shim_cache: _shim_cache[p] = open(p).read()
        if re.search(r'\b%s\s*\(' % re.escape(sym), _shim_cache[p]): return True
    return False


def load_spec(prop):
    p = os.path.join(VERIF, 'harness', prop, 'jobs.py')
    spec = importlib.util.spec_from_file_location('jobs_' + prop, p)
    mod = importlib.util.module_from_spec(spec); sys.modules['jobs_' + prop] = mod
    spec.loader.exec_module(mod); return mod


def load_known():
    p = os.path.join(VERIF, 'known_findings.json')
    if os.path.exists(p): return json.load(open(p))
    return {'findings': [], 'fixed': []}


def main(argv):
    import argparse
    ap = argparse.ArgumentParser()
    ap.add_argument('prop'); ap.add_argument('--tier', default=os.environ.get('VERIF_TIER', 'quick'))
    ap.add_argument('--job', action='append'); ap.add_argument('--keep', action='store_true')
    ap.add_argument('--replay'); ap.add_argument('-j', type=int, default=int(os.environ.get('VERIF_JOBS', '14')))
    ap.add_argument('--no-evidence', action='store_true')
    o = ap.parse_args(argv)
    seed = int(os.environ.get('VERIF_SEED', '1'))
    t0 = time.time()
    spec = load_spec(o.prop)
    if o.replay:
        return do_replay(o, spec)
    jobs = [j for j in spec.jobs(o.tier) if not o.job or j.name in o.job]
    wd = tempfile.mkdtemp(prefix='verif_%s_' % o.prop, dir=os.environ.get('VERIF_TMP', '/tmp'))
    results = []
    try:
        # machine-wide memory budget shared by every ./check process (several may run at once): a flock-protected ledger
        import fcntl
        LEDGER = os.environ.get('VERIF_MEM_LEDGER', '/tmp/verif_mem_ledger.json'); TOTAL = float(os.environ.get('VERIF_MEM_GB', '90'))
        def ledger(update):
            with open(LEDGER, 'a+') as f:
                fcntl.flock(f, fcntl.LOCK_EX)
                f.seek(0); txt = f.read()
                try: d = json.loads(txt) if txt.strip() else {}
                except Exception: d = {}
                d = {k: v for k, v in d.items() if os.path.exists('/proc/%s' % k.split(':')[0])}
                r = update(d)
                f.seek(0); f.truncate(); f.write(json.dumps(d)); f.flush()
                return r
        def guarded(j):
            need = min(j.mem_gb, TOTAL); key = '%d:%s' % (os.getpid(), j.name)
            def try_take(d):
                if sum(d.values()) + need <= TOTAL or not d: d[key] = need; return True
                return False
            while not ledger(try_take): time.sleep(2 + random.random() * 3)
            try: return run_job(j, wd, seed)
            finally: ledger(lambda d: d.pop(key, None))
        jobs.sort(key=lambda j: -j.mem_gb)
        with cf.ThreadPoolExecutor(max_workers=o.j) as ex:
            futs = {ex.submit(guarded, j): j for j in jobs}
            for f in cf.as_completed(futs):
                r = f.result(); results.append(r)
                sys.stderr.write('[%s] %-28s %-9s %6.1fs %s%s\n' % (o.prop, r['job'], r['status'], r['wall_s'],
                                 ('(%s steps, %s vars, %s clauses, %s MB) ' % (r.get('steps'), r.get('variables'), r.get('clauses'), r.get('rss_mb'))) if r.get('variables') else '',
                                 r.get('detail', '')[:300].replace('\n', ' ')))
        rc = finish(o, spec, jobs, results, seed, time.time() - t0, wd)
    finally:
        if not o.keep: shutil.rmtree(wd, ignore_errors=True)
        else: sys.stderr.write('workdir kept: %s\n' % wd)
    return rc


def finish(o, spec, jobs, results, seed, wall, wd):
    known = load_known(); prop = o.prop
    jobmap = {j.name: j for j in jobs}
    results.sort(key=lambda r: r['job'])
    violations = []; broken = []; kf_lines = []
    for r in results:
        j = jobmap[r['job']]
        if j.kf:
            # job that demonstrates a listed known finding: expected to be violated with exactly that assertion
            listed = [k for k in known.get('findings', []) if k['id'] == j.kf and k['property'] == prop]
            if r['status'] == 'violation' and listed:
                pat = listed[0]['assertion_regex']
                other = [f for f in r['failed'] if not re.search(pat, f['description'])]
                if other:
                    violations.append((r, other))
                else:
                    kf_lines.append('KNOWN-FINDING: property=%s %s' % (prop, listed[0]['what']))
                    r['status'] = 'known-finding'
            elif r['status'] == 'violation':
                violations.append((r, r['failed']))
            elif r['status'] == 'held':
                r['status'] = 'held'   # finding no longer reproduces (fixed): nothing to report
            else:
                broken.append(r)
            continue
        if r['status'] == 'violation': violations.append((r, r['failed']))
        elif r['status'] != 'held': broken.append(r)
    os.makedirs(os.path.join(VERIF, 'replays'), exist_ok=True)
    for l in sorted(set(kf_lines)): print(l)
    for r, failed in violations:
        body = dict(property=prop, job=r['job'], tier=o.tier, failed=failed, inputs=r.get('counterexample_inputs'), bounds=r.get('bounds'),
                    native_replay=r.get('native_replay'), cmd=r.get('cmd'), entry=r.get('entry'))
        h = hashlib.sha1(json.dumps(body, sort_keys=True).encode()).hexdigest()[:10]
        path = os.path.join(VERIF, 'replays', '%s-%s-%s.json' % (prop, r['job'], h))
        if r.get('trace_file') and os.path.exists(r['trace_file']):
            tp = path.replace('.json', '.trace.txt'); shutil.copy(r['trace_file'], tp); body['trace'] = tp
        json.dump(body, open(path, 'w'), indent=1)
        r['replay'] = path
        print('VIOLATION property=%s replay=%s' % (prop, path))
        sys.stderr.write('  failed: %s\n' % '; '.join(f['description'] for f in failed[:4]))
    if not o.no_evidence:
        write_evidence(o, spec, results, seed, wall, len(violations))
    for r in broken:
        sys.stderr.write('BROKEN %s/%s: %s\n' % (prop, r['job'], r.get('detail', '')[:2000]))
    sys.stdout.flush()
    if violations: return 1
    if broken: return 2
    return 0


def write_evidence(o, spec, results, seed, wall, nviol):
    meta = getattr(spec, 'META', {})
    samples = []; evals = 0; distinct = set(); funcs = set(); stubs = set()
    for r in results:
        s = {k: r.get(k) for k in ('job', 'desc', 'bounds', 'status', 'unwind', 'n_properties', 'n_user_assertions', 'n_memory_checks',
                                   'witnesses', 'assertions', 'variables', 'clauses', 'vccs', 'vccs_remaining', 'solver_s', 'symex_s', 'cbmc_s', 'rss_mb',
                                   'wall_s', 'translated', 'translation_validation', 'cmd', 'detail', 'extra', 'queries') if r.get(k) not in (None, '', [])}
        samples.append(s)
        evals += r.get('queries', 0) or (r.get('vccs_remaining') or r.get('n_properties') or 0)
        if r['status'] in ('held', 'known-finding'):
            for a in r.get('assertions', []): distinct.add((r['job'], a))
        for f in r.get('functions', []): funcs.add(f)
        for e in r.get('externals', []): stubs.add(e)
    ev = dict(property_id=o.prop, tier=o.tier if o.tier in ('quick', 'thorough') else 'quick', seed=seed, level='model_checking',
              coverage=dict(evaluations=max(evals, 1), distinct_nontrivial=len(distinct),
                            rule='evaluations = verification conditions handed to the solver (after simplification) summed over harnesses; '
                                 'distinct_nontrivial = distinct (harness, user assertion) pairs proved in a harness whose vacuity witness was reachable '
                                 '(memory-safety checks inserted by CBMC are counted in n_memory_checks, not here)',
                            samples=samples, exhaustive=False,
                            functions_encoded=sorted(funcs)[:400] or meta.get('functions', []),
                            stubs=sorted(stubs), bounds=meta.get('bounds', ''), outside_bounds=meta.get('outside', ''),
                            technique=meta.get('technique', 'bounded symbolic execution of clang IR of the real sources (ir2c -> CBMC 6.11, SAT)'),
                            solver_time_s=round(sum((r.get('solver_s') or 0) for r in results), 2),
                            jobs=len(results), jobs_held=sum(1 for r in results if r['status'] in ('held', 'known-finding'))),
              assumptions=meta.get('assumptions', []), wall_s=round(wall, 2), violations=nviol)
    os.makedirs(os.path.join(VERIF, 'evidence'), exist_ok=True)
    json.dump(ev, open(os.path.join(VERIF, 'evidence', o.prop + '.json'), 'w'), indent=1)


def do_replay(o, spec):
    body = json.load(open(o.replay))
    jobs = [j for j in spec.jobs('thorough') + spec.jobs('quick') if j.name == body['job']]
    if not jobs: print('unknown job'); return 2
    job = jobs[0]
    wd = tempfile.mkdtemp(prefix='verif_replay_')
    try:
        cfile, info = build_c(job, wd)
        out = native_replay(job, cfile, wd, body['inputs'] or [])
        print(json.dumps(out, indent=1))
        bad = any(isinstance(v, dict) and (v['failed_assertions'] or v['signalled']) for v in out.values())
        if bad: print('VIOLATION property=%s replay=%s' % (o.prop, o.replay))
        return 1 if bad else 0
    finally:
        shutil.rmtree(wd, ignore_errors=True)


if __name__ == '__main__':
    sys.exit(main(sys.argv[1:]))
