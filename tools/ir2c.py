#!/usr/bin/env python3
"""ir2c: translate LLVM-14 textual IR (typed pointers) into plain C for CBMC.
Prototype for feasibility probing.  Every pointer is `char*` in C; loads/stores
cast at the access; GEPs are rendered as typed field paths (field-sensitive for
CBMC) with a byte-offset fallback.
"""
import re, sys, argparse, collections

# ----------------------------------------------------------------- tokenizer
TOK = re.compile(r'''
   (?P<ws>\s+)
 | (?P<cstr>c"(?:[^"\\]|\\[0-9A-Fa-f]{2}|\\\\)*")
 | (?P<str>"(?:[^"\\]|\\.)*")
 | (?P<lid>%(?:"(?:[^"\\]|\\.)*"|[-a-zA-Z$._0-9]+))
 | (?P<gid>@(?:"(?:[^"\\]|\\.)*"|[-a-zA-Z$._0-9]+))
 | (?P<meta>![-a-zA-Z$._0-9]*)
 | (?P<attr>\#[0-9]+)
 | (?P<flt>-?[0-9]+\.[0-9]*(?:e[+-]?[0-9]+)?|0x[KLMHR]?[0-9A-Fa-f]+)
 | (?P<int>-?[0-9]+)
 | (?P<dots>\.\.\.)
 | (?P<word>[a-zA-Z_][a-zA-Z_0-9.]*)
 | (?P<p>[()\[\]{}<>,=*:|])
''', re.X)

def tokenize(s):
    out = []; i = 0
    while i < len(s):
        if s[i] == ';' :
            break
        m = TOK.match(s, i)
        if not m: raise SyntaxError("tok %r in %r" % (s[i:i+30], s[:120]))
        i = m.end()
        k = m.lastgroup
        if k == 'ws': continue
        out.append((k, m.group()))
    return out

# ----------------------------------------------------------------- types
class Ty:
    pass
class IntTy(Ty):
    def __init__(s, bits): s.bits = bits
    def __repr__(s): return 'i%d' % s.bits
class FloatTy(Ty):
    def __init__(s, name): s.name = name
    def __repr__(s): return s.name
class VoidTy(Ty):
    def __repr__(s): return 'void'
class PtrTy(Ty):
    def __init__(s, to): s.to = to
    def __repr__(s): return '%r*' % (s.to,)
class ArrTy(Ty):
    def __init__(s, n, el): s.n = n; s.el = el
    def __repr__(s): return '[%d x %r]' % (s.n, s.el)
class VecTy(Ty):
    def __init__(s, n, el): s.n = n; s.el = el
    def __repr__(s): return '<%d x %r>' % (s.n, s.el)
class StructTy(Ty):
    def __init__(s, fields, packed=False, name=None): s.fields = fields; s.packed = packed; s.name = name; s.opaque = False
    def __repr__(s): return s.name or ('{%s}' % ','.join(map(repr, s.fields)))
class FnTy(Ty):
    def __init__(s, ret, args, vararg): s.ret = ret; s.args = args; s.vararg = vararg
    def __repr__(s): return '%r(%s)' % (s.ret, ','.join(map(repr, s.args)))
class LabelTy(Ty):
    def __repr__(s): return 'label'
class MetaTy(Ty):
    def __repr__(s): return 'metadata'

class Parser:
    def __init__(s, mod, toks): s.mod = mod; s.t = toks; s.i = 0
    def peek(s, k=0): return s.t[s.i+k] if s.i+k < len(s.t) else (None, None)
    def next(s):
        x = s.t[s.i]; s.i += 1; return x
    def accept(s, v):
        if s.peek()[1] == v: s.i += 1; return True
        return False
    def expect(s, v):
        x = s.next()
        if x[1] != v: raise SyntaxError("expected %r got %r at %r" % (v, x, s.t[max(0,s.i-6):s.i+4]))
    def at_end(s): return s.i >= len(s.t)

    def type(s):
        k, v = s.next()
        if k == 'word':
            if v == 'void': t = VoidTy()
            elif re.fullmatch(r'i[0-9]+', v): t = IntTy(int(v[1:]))
            elif v in ('float', 'double', 'x86_fp80', 'half', 'fp128'): t = FloatTy(v)
            elif v == 'label': t = LabelTy()
            elif v == 'metadata': t = MetaTy()
            elif v == 'opaque': t = StructTy([], name=None); t.opaque = True
            elif v == 'ptr': t = PtrTy(IntTy(8))
            elif v == 'x86_mmx': t = IntTy(64)
            elif v == 'token': t = MetaTy()
            else: raise SyntaxError("type word %r" % v)
        elif k == 'lid':
            t = s.mod.named_type(v)
        elif v == '{':
            fs = []
            if not s.accept('}'):
                while True:
                    fs.append(s.type())
                    if s.accept('}'): break
                    s.expect(',')
            t = StructTy(fs)
        elif v == '[':
            n = int(s.next()[1]); s.expect('x'); el = s.type(); s.expect(']')
            t = ArrTy(n, el)
        elif v == '<':
            if s.peek()[1] == '{':
                s.next(); fs = []
                if not s.accept('}'):
                    while True:
                        fs.append(s.type())
                        if s.accept('}'): break
                        s.expect(',')
                s.expect('>')
                t = StructTy(fs, packed=True)
            else:
                n = int(s.next()[1]); s.expect('x'); el = s.type(); s.expect('>')
                t = VecTy(n, el)
        else:
            raise SyntaxError("type tok %r %r" % (k, v))
        # suffixes
        while True:
            if s.peek()[1] == '*':
                s.next(); t = PtrTy(t)
            elif s.peek()[1] == '(' :
                # function type
                s.next(); args = []; va = False
                if not s.accept(')'):
                    while True:
                        if s.peek()[0] == 'dots': s.next(); va = True
                        else: args.append(s.type())
                        if s.accept(')'): break
                        s.expect(',')
                t = FnTy(t, args, va)
            elif s.peek()[0] == 'word' and s.peek()[1] == 'addrspace':
                s.next(); s.expect('('); s.next(); s.expect(')')
            else:
                break
        return t

# ----------------------------------------------------------------- values
class V:   # a typed value: kind in local/global/int/null/undef/zero/cexpr/agg/str/float
    def __init__(s, kind, ty, data=None): s.kind = kind; s.ty = ty; s.data = data
    def __repr__(s): return 'V(%s,%r,%r)' % (s.kind, s.ty, s.data)

PARAM_ATTRS = set('''noundef nonnull nocapture readonly readnone writeonly zeroext signext noalias
 immarg returned inreg nest nofree swiftself swifterror inalloca'''.split())
CAST_OPS = set('bitcast ptrtoint inttoptr zext sext trunc addrspacecast fptoui fptosi uitofp sitofp fpext fptrunc'.split())
BIN_OPS = set('add sub mul udiv sdiv urem srem and or xor shl lshr ashr fadd fsub fmul fdiv frem'.split())

def skip_param_attrs(p):
    while True:
        k, v = p.peek()
        if k == 'word' and v in PARAM_ATTRS: p.next()
        elif k == 'word' and v in ('align', 'dereferenceable', 'dereferenceable_or_null'):
            p.next()
            if p.accept('('): p.next(); p.expect(')')
            else: p.next()
        elif k == 'word' and v in ('byval', 'sret', 'byref', 'preallocated', 'elementtype'):
            p.next()
            if p.accept('('): p.type(); p.expect(')')
        else: break

def parse_value(p, ty):
    k, v = p.next()
    if k == 'lid': return V('local', ty, v)
    if k == 'gid': return V('global', ty, v)
    if k == 'int': return V('int', ty, int(v))
    if k == 'flt': return V('float', ty, v)
    if k == 'cstr': return V('str', ty, v)
    if k == 'word':
        if v == 'true': return V('int', ty, 1)
        if v == 'false': return V('int', ty, 0)
        if v == 'null': return V('null', ty)
        if v in ('undef', 'poison'): return V('undef', ty)
        if v == 'zeroinitializer': return V('zero', ty)
        if v == 'none': return V('undef', ty)
        if v in CAST_OPS:
            p.expect('('); st = p.type(); sv = parse_value(p, st); p.expect('to'); dt = p.type(); p.expect(')')
            return V('cexpr', ty, ('cast', v, sv, dt))
        if v == 'getelementptr':
            p.accept('inbounds'); p.expect('(')
            bt = p.type(); p.expect(',')
            ops = []
            while True:
                p.accept('inrange')
                t = p.type(); ops.append(parse_value(p, t))
                if p.accept(')'): break
                p.expect(',')
            return V('cexpr', ty, ('gep', bt, ops))
        if v in BIN_OPS:
            while p.peek()[1] in ('nuw', 'nsw', 'exact'): p.next()
            p.expect('('); t1 = p.type(); a = parse_value(p, t1); p.expect(','); t2 = p.type(); b = parse_value(p, t2); p.expect(')')
            return V('cexpr', ty, ('bin', v, a, b))
        if v == 'icmp':
            pred = p.next()[1]
            p.expect('('); t1 = p.type(); a = parse_value(p, t1); p.expect(','); t2 = p.type(); b = parse_value(p, t2); p.expect(')')
            return V('cexpr', ty, ('icmp', pred, a, b))
        if v == 'select':
            p.expect('('); t0 = p.type(); c = parse_value(p, t0); p.expect(','); t1 = p.type(); a = parse_value(p, t1); p.expect(','); t2 = p.type(); b = parse_value(p, t2); p.expect(')')
            return V('cexpr', ty, ('select', c, a, b))
        if v == 'blockaddress' or v == 'dso_local_equivalent' or v == 'no_cfi':
            raise SyntaxError('unsupported const ' + v)
        raise SyntaxError("value word %r" % v)
    if v == '{' or v == '[' or v == '<':
        close = {'{': '}', '[': ']', '<': '>'}[v]
        packed = False
        if v == '<' and p.peek()[1] == '{':
            p.next(); packed = True; close = '}'
        elems = []
        if not p.accept(close):
            while True:
                t = p.type(); elems.append(parse_value(p, t))
                if p.accept(close): break
                p.expect(',')
        if packed: p.expect('>')
        return V('agg', ty, elems)
    raise SyntaxError("value tok %r %r" % (k, v))

def parse_typed_value(p):
    t = p.type(); skip_param_attrs(p)
    return parse_value(p, t)

# ----------------------------------------------------------------- module
class Instr:
    def __init__(s, res, op, **kw): s.res = res; s.op = op; s.__dict__.update(kw)
class Func:
    def __init__(s, name, ret, params, vararg): s.name = name; s.ret = ret; s.params = params; s.vararg = vararg; s.blocks = None
class Global:
    def __init__(s, name, ty, init, tls, const, ext): s.name = name; s.ty = ty; s.init = init; s.tls = tls; s.const = const; s.ext = ext

LINKAGE = set('''private internal available_externally linkonce weak common appending extern_weak linkonce_odr weak_odr external
 dso_local dso_preemptable default hidden protected unnamed_addr local_unnamed_addr externally_initialized
 fastcc ccc coldcc tailcc'''.split())

class Module:
    def __init__(s):
        s.types = {}; s.globals = {}; s.funcs = {}; s.aliases = {}
    def named_type(s, name):
        if name not in s.types:
            t = StructTy([], name=name); t.opaque = True; s.types[name] = t
        return s.types[name]

    def parse(s, text):
        lines = text.split('\n'); i = 0; n = len(lines)
        while i < n:
            ln = lines[i]; i += 1
            if not ln or ln[0] in ';!' or ln.startswith(('source_filename', 'target ', 'module asm', 'attributes ', '$')):
                continue
            if ln.startswith('%') and ' = type ' in ln:
                toks = tokenize(ln); p = Parser(s, toks)
                name = p.next()[1]; p.expect('='); p.expect('type')
                t = p.type(); nt = s.named_type(name)
                if isinstance(t, StructTy) and not t.opaque:
                    nt.fields = t.fields; nt.packed = t.packed; nt.opaque = False
                continue
            if ln.startswith('@'):
                s.parse_global(ln); continue
            if ln.startswith('declare '):
                s.parse_fn_header(tokenize(ln), True); continue
            if ln.startswith('define '):
                f = s.parse_fn_header(tokenize(ln), False)
                body = []
                while lines[i] != '}':
                    body.append(lines[i]); i += 1
                i += 1
                f.body_lines = body
                continue
            raise SyntaxError("toplevel: " + ln[:100])

    def parse_global(s, ln):
        toks = tokenize(ln); p = Parser(s, toks)
        name = p.next()[1]; p.expect('=')
        tls = False; ext = False
        while True:
            k, v = p.peek()
            if v in LINKAGE:
                if v in ('external', 'extern_weak', 'available_externally'): ext = True
                p.next()
            elif v == 'thread_local':
                p.next(); tls = True
                if p.accept('('): p.next(); p.expect(')')
            else: break
        k, v = p.next()
        if v == 'alias':
            t = p.type(); p.expect(','); tv = parse_typed_value(p)
            s.aliases[name] = tv; return
        if v == 'ifunc': return
        const = (v == 'constant')
        ty = p.type()
        init = None
        if not p.at_end() and p.peek()[1] != ',':
            init = parse_value(p, ty)
        s.globals[name] = Global(name, ty, init, tls, const, ext and init is None)

    def parse_fn_header(s, toks, decl):
        p = Parser(s, toks); p.next()
        while True:
            k, v = p.peek()
            if v in LINKAGE or (k == 'word' and v in PARAM_ATTRS): p.next()
            elif k == 'word' and v in ('align', 'dereferenceable', 'dereferenceable_or_null'):
                p.next()
                if p.accept('('): p.next(); p.expect(')')
                else: p.next()
            else: break
        ret = p.type()
        name = p.next()[1]
        p.expect('(')
        params = []; va = False
        if not p.accept(')'):
            while True:
                if p.peek()[0] == 'dots': p.next(); va = True
                else:
                    t = p.type(); skip_param_attrs(p)
                    pn = None
                    if p.peek()[0] == 'lid': pn = p.next()[1]
                    params.append((t, pn))
                if p.accept(')'): break
                p.expect(',')
        f = Func(name, ret, params, va)
        if name not in s.funcs or not decl:
            s.funcs[name] = f
        return f

# ----------------------------------------------------------------- function body parsing
def parse_body(mod, f):
    blocks = collections.OrderedDict()
    cur = None
    lines = f.body_lines; i = 0
    # first block label: implicit = number of params (unnamed numbering) -- find from preds use; LLVM prints no label for entry
    entry = '%entry__'
    cur = blocks.setdefault(entry, [])
    while i < len(lines):
        ln = lines[i]; i += 1
        if not ln.strip(): continue
        m = re.match(r'^([-a-zA-Z$._0-9]+|"[^"]*"):', ln)
        if m:
            cur = blocks.setdefault('%' + m.group(1), []); continue
        if ln.lstrip().startswith('switch '):
            while not (ln.rstrip().endswith(']') or lines[i - 1].strip().startswith(']')):
                ln += ' ' + lines[i].strip(); i += 1
        toks = tokenize(ln)
        if not toks: continue
        cur.append(parse_instr(mod, toks, ln))
    f.blocks = blocks
    return f

FAST = set('fast nnan ninf nsz arcp contract afn reassoc'.split())
def parse_instr(mod, toks, ln):
    p = Parser(mod, toks)
    res = None
    if p.peek()[0] == 'lid' and p.peek(1)[1] == '=':
        res = p.next()[1]; p.next()
    op = p.next()[1]
    if op in ('tail', 'musttail', 'notail'):
        op = p.next()[1]
    if op in BIN_OPS:
        while p.peek()[1] in ('nuw', 'nsw', 'exact') or p.peek()[1] in FAST: p.next()
        t = p.type(); a = parse_value(p, t); p.expect(','); b = parse_value(p, t)
        return Instr(res, 'bin', bop=op, ty=t, a=a, b=b)
    if op == 'fneg':
        while p.peek()[1] in FAST: p.next()
        t = p.type(); a = parse_value(p, t)
        return Instr(res, 'fneg', ty=t, a=a)
    if op in ('icmp', 'fcmp'):
        while p.peek()[1] in FAST: p.next()
        pred = p.next()[1]; t = p.type(); a = parse_value(p, t); p.expect(','); b = parse_value(p, t)
        return Instr(res, op, pred=pred, ty=t, a=a, b=b)
    if op in CAST_OPS:
        st = p.type(); a = parse_value(p, st); p.expect('to'); dt = p.type()
        return Instr(res, 'cast', cop=op, a=a, ty=dt)
    if op == 'select':
        while p.peek()[1] in FAST: p.next()
        c = parse_typed_value(p); p.expect(','); a = parse_typed_value(p); p.expect(','); b = parse_typed_value(p)
        return Instr(res, 'select', c=c, a=a, b=b, ty=a.ty)
    if op == 'phi':
        while p.peek()[1] in FAST: p.next()
        t = p.type(); inc = []
        while True:
            p.expect('['); v = parse_value(p, t); p.expect(','); lb = p.next()[1]; p.expect(']')
            inc.append((v, lb))
            if not p.accept(','): break
        return Instr(res, 'phi', ty=t, inc=inc)
    if op == 'br':
        if p.peek()[1] == 'label':
            p.next(); return Instr(None, 'br', dest=p.next()[1])
        c = parse_typed_value(p); p.expect(','); p.expect('label'); a = p.next()[1]; p.expect(','); p.expect('label'); b = p.next()[1]
        return Instr(None, 'condbr', c=c, t=a, f=b)
    if op == 'switch':
        c = parse_typed_value(p); p.expect(','); p.expect('label'); d = p.next()[1]; p.expect('[')
        cases = []
        while not p.accept(']'):
            v = parse_typed_value(p); p.expect(','); p.expect('label'); cases.append((v, p.next()[1]))
        return Instr(None, 'switch', c=c, default=d, cases=cases)
    if op == 'ret':
        t = p.type()
        if isinstance(t, VoidTy): return Instr(None, 'ret', v=None)
        return Instr(None, 'ret', v=parse_value(p, t))
    if op == 'unreachable': return Instr(None, 'unreachable')
    if op == 'alloca':
        p.accept('inalloca')
        t = p.type(); n = None
        if p.accept(','):
            if p.peek()[1] == 'align': pass
            else:
                n = parse_typed_value(p)
        return Instr(res, 'alloca', aty=t, n=n, ty=PtrTy(t))
    if op == 'load':
        atomic = p.accept('atomic'); vol = p.accept('volatile')
        t = p.type(); p.expect(','); ptr = parse_typed_value(p)
        return Instr(res, 'load', ty=t, ptr=ptr, atomic=atomic)
    if op == 'store':
        atomic = p.accept('atomic'); vol = p.accept('volatile')
        v = parse_typed_value(p); p.expect(','); ptr = parse_typed_value(p)
        order = None
        if atomic:
            while not p.at_end() and p.peek()[1] != ',':
                order = p.next()[1]
        return Instr(None, 'store', v=v, ptr=ptr, atomic=atomic, order=order)
    if op == 'getelementptr':
        p.accept('inbounds'); bt = p.type(); p.expect(',')
        ops = []
        while True:
            ops.append(parse_typed_value(p))
            if not p.accept(','): break
            if p.peek()[0] == 'meta': break      # trailing metadata (", !nosanitize !N" on member-pointer calls)
        return Instr(res, 'gep', bt=bt, ops=ops, ty=PtrTy(IntTy(8)))
    if op == 'cmpxchg':
        p.accept('weak'); p.accept('volatile')
        ptr = parse_typed_value(p); p.expect(','); cmp = parse_typed_value(p); p.expect(','); new = parse_typed_value(p)
        return Instr(res, 'cmpxchg', ptr=ptr, cmp=cmp, new=new, ty=StructTy([cmp.ty, IntTy(1)]))
    if op == 'atomicrmw':
        p.accept('volatile'); rop = p.next()[1]
        ptr = parse_typed_value(p); p.expect(','); v = parse_typed_value(p)
        return Instr(res, 'atomicrmw', rop=rop, ptr=ptr, v=v, ty=v.ty)
    if op == 'fence':
        order = [t[1] for t in p.t[p.i:]]
        return Instr(None, 'fence', order=order)
    if op == 'extractvalue':
        a = parse_typed_value(p); idx = []
        while p.accept(','): idx.append(int(p.next()[1]))
        return Instr(res, 'extractvalue', a=a, idx=idx, ty=None)
    if op == 'insertvalue':
        a = parse_typed_value(p); p.expect(','); v = parse_typed_value(p); idx = []
        while p.accept(','): idx.append(int(p.next()[1]))
        return Instr(res, 'insertvalue', a=a, v=v, idx=idx, ty=a.ty)
    if op in ('call', 'invoke'):
        while True:
            k, v = p.peek()
            if v in FAST or v in LINKAGE or (k == 'word' and v in PARAM_ATTRS): p.next()
            elif k == 'word' and v in ('align', 'dereferenceable', 'dereferenceable_or_null'):
                p.next()
                if p.accept('('): p.next(); p.expect(')')
                else: p.next()
            else: break
        rt = p.type()
        # rt may be a full function type (for varargs) -> then callee follows
        fnty = None
        if isinstance(rt, PtrTy) and isinstance(rt.to, FnTy) and p.peek()[0] in ('gid', 'lid') and p.peek(1)[1] == '(':
            fnty = rt.to; rt = fnty.ret
        elif isinstance(rt, FnTy):
            fnty = rt; rt = fnty.ret
        asm = None
        if p.peek()[1] == 'asm':
            p.next()
            while p.peek()[1] in ('sideeffect', 'alignstack', 'inteldialect', 'unwind'): p.next()
            asm = (p.next()[1], p.next()[1] if p.accept(',') or True else None)
            callee = None
        else:
            k, v = p.peek()
            if k in ('gid', 'lid'):
                p.next(); callee = V('global' if k == 'gid' else 'local', None, v)
            else:
                callee = parse_value(p, PtrTy(IntTy(8)))
        p.expect('(')
        args = []
        if not p.accept(')'):
            while True:
                t = p.type(); skip_param_attrs(p)
                if isinstance(t, MetaTy):
                    # metadata arg: skip to matching , or )
                    depth = 0
                    while True:
                        k, v = p.peek()
                        if v in ('(', '[', '{'): depth += 1
                        if v in (')', ']', '}'):
                            if depth == 0: break
                            depth -= 1
                        if v == ',' and depth == 0: break
                        p.next()
                    args.append(V('undef', t))
                else:
                    args.append(parse_value(p, t))
                if p.accept(')'): break
                p.expect(',')
        return Instr(res, 'call', callee=callee, args=args, ty=rt, asm=asm, fnty=fnty)
    if op == 'freeze':
        a = parse_typed_value(p); return Instr(res, 'cast', cop='bitcast', a=a, ty=a.ty)
    if op in ('landingpad', 'resume', 'extractelement', 'insertelement', 'shufflevector', 'va_arg'):
        return Instr(res, 'unsupported', what=op, ty=None, text=ln)
    raise SyntaxError("instr %r: %s" % (op, ln[:160]))

# ----------------------------------------------------------------- layout
def align_of(t):
    if isinstance(t, IntTy): return min(max(1, 1 << ((t.bits + 7) // 8 - 1).bit_length()), 16) if t.bits > 8 else 1
    if isinstance(t, FloatTy): return {'float': 4, 'double': 8, 'x86_fp80': 16, 'half': 2, 'fp128': 16}[t.name]
    if isinstance(t, (PtrTy, FnTy)): return 8
    if isinstance(t, ArrTy): return align_of(t.el)
    if isinstance(t, VecTy): return min(16, size_of(t))
    if isinstance(t, StructTy):
        if t.packed: return 1
        return max([align_of(f) for f in t.fields] or [1])
    raise ValueError(t)
def size_of(t):
    if isinstance(t, IntTy):
        b = (t.bits + 7) // 8; a = align_of(t); return (b + a - 1) // a * a
    if isinstance(t, FloatTy): return {'float': 4, 'double': 8, 'x86_fp80': 16, 'half': 2, 'fp128': 16}[t.name]
    if isinstance(t, (PtrTy, FnTy)): return 8
    if isinstance(t, ArrTy): return t.n * size_of(t.el)
    if isinstance(t, VecTy): return t.n * size_of(t.el)
    if isinstance(t, StructTy):
        off = 0
        for f in t.fields:
            if not t.packed: a = align_of(f); off = (off + a - 1) // a * a
            off += size_of(f)
        a = align_of(t); return (off + a - 1) // a * a
    raise ValueError(t)
def field_off(t, k):
    off = 0
    for i, f in enumerate(t.fields):
        if not t.packed: a = align_of(f); off = (off + a - 1) // a * a
        if i == k: return off
        off += size_of(f)
    raise IndexError

# ----------------------------------------------------------------- C emission
def cid(name):
    n = name[1:]
    if n.startswith('"'): n = n[1:-1]
    return re.sub(r'[^A-Za-z0-9_]', lambda m: '_%02x' % ord(m.group()), n)

class Emitter:
    def __init__(s, mod, opts):
        s.mod = mod; s.opts = opts
        s.struct_names = {}     # id(StructTy)/key -> C name
        s.struct_defs = []      # ordered C defs
        s.anon = {}
        s.out = []
        s.needed_funcs = []; s.seen_funcs = set()
        s.needed_globals = []; s.seen_globals = set()
        s.ext_funcs = set(); s.hooks = set()
        s.emitting = set()

    # ---- types
    def cty(s, t):
        if isinstance(t, IntTy):
            if t.bits == 1: return '_Bool'
            for w in (8, 16, 32, 64):
                if t.bits <= w: return 'uint%d_t' % w
            if t.bits <= 128: return 'unsigned __int128'
            raise ValueError(t)
        if isinstance(t, FloatTy): return {'float': 'float', 'double': 'double', 'x86_fp80': 'long double'}[t.name]
        if isinstance(t, (PtrTy, FnTy)): return 'char*'
        if isinstance(t, VoidTy): return 'void'
        if isinstance(t, StructTy): return 'struct ' + s.struct_name(t)
        if isinstance(t, ArrTy): return 'struct ' + s.arr_name(t)
        raise ValueError("cty %r" % (t,))
    def key(s, t):
        if isinstance(t, StructTy) and t.name: return t.name
        return repr(t) + ('P' if isinstance(t, StructTy) and t.packed else '')
    def struct_name(s, t):
        k = s.key(t)
        if k in s.struct_names: return s.struct_names[k]
        nm = ('S_' + cid(t.name)) if t.name else 'A%d' % len(s.struct_names)
        s.struct_names[k] = nm
        if t.opaque:
            s.struct_defs.append('struct %s { char opaque__; };' % nm); return nm
        if k in s.emitting:
            return nm
        s.emitting.add(k)
        body = []
        for i, f in enumerate(t.fields):
            if size_of(f) == 0: continue
            body.append('  %s;' % s.decl(f, 'f%d' % i))
        if not body: body = ['  char empty__;'] if False else []
        s.struct_defs.append('struct %s%s {\n%s\n};' % ('__attribute__((packed)) ' if t.packed else '', nm, '\n'.join(body)))
        return nm
    def arr_name(s, t):
        # arrays as SSA values / wrapped: struct { T a[N]; }
        k = 'ARR' + repr(t)
        if k in s.struct_names: return s.struct_names[k]
        nm = 'R%d' % len(s.struct_names); s.struct_names[k] = nm
        s.struct_defs.append('struct %s { %s; };' % (nm, s.decl(t.el, 'a[%d]' % t.n)))
        return nm
    def decl(s, t, name):
        if isinstance(t, ArrTy):
            return s.decl(t.el, '%s[%d]' % (name, t.n))
        return '%s %s' % (s.cty(t), name)

    # ---- values
    def sval(s, v, fn=None):
        """C expression for value v with C type cty(v.ty)."""
        t = v.ty
        if v.kind == 'local': return fn.lname(v.data)
        if v.kind == 'global': return s.gref(v.data)
        if v.kind == 'int':
            if isinstance(t, IntTy):
                if t.bits == 1: return '1' if v.data & 1 else '0'
                x = v.data & ((1 << t.bits) - 1)
                if t.bits > 64: return '(((unsigned __int128)%dULL<<64)|%dULL)' % (x >> 64, x & (2**64 - 1))
                return '((%s)%dULL)' % (s.cty(t), x)
            return str(v.data)
        if v.kind == 'null': return '((char*)0)'
        if v.kind == 'undef':
            if isinstance(t, (StructTy, ArrTy)): return '(%s){0}' % s.cty(t)
            if isinstance(t, MetaTy): return '0'
            return '((%s)0)' % s.cty(t)
        if v.kind == 'zero':
            if isinstance(t, (StructTy, ArrTy)): return '(%s){0}' % s.cty(t)
            return '((%s)0)' % s.cty(t)
        if v.kind == 'float':
            x = v.data
            if x.startswith('0x'):
                import struct
                return repr(struct.unpack('>d', bytes.fromhex(x[2:].rjust(16, '0')))[0])
            return x
        if v.kind == 'cexpr': return s.cexpr(v, fn)
        if v.kind == 'agg':
            return '(%s)%s' % (s.cty(t), s.init(v))
        raise ValueError(v)
    def gref(s, name):
        m = s.mod
        while name in m.aliases:
            a = m.aliases[name]
            if a.kind == 'global': name = a.data
            else: return s.sval(a)
        if name.startswith(('@_ZTI', '@_ZTS')) or name.startswith('@_ZTVN10__cxxabiv'):
            return '((char*)0)'   # RTTI: only reachable through __dynamic_cast/typeid, which harnesses map explicitly
        if name in m.funcs:
            s.need_func(name); return '((char*)&%s)' % s.fname(name)
        if name in m.globals:
            s.need_global(name)
            g = m.globals[name]
            if g.tls: return '((char*)&%s[verif_os_tid])' % cid(name)
            return '((char*)&%s)' % cid(name)
        raise KeyError(name)
    def cexpr(s, v, fn):
        d = v.data
        if d[0] == 'cast':
            return s.cast(d[1], d[2], d[3], fn)
        if d[0] == 'gep':
            return s.gep(d[1], d[2], fn)
        if d[0] == 'bin':
            return s.binop(d[1], d[2].ty, s.sval(d[2], fn), s.sval(d[3], fn))
        if d[0] == 'icmp':
            return s.icmp(d[1], d[2].ty, s.sval(d[2], fn), s.sval(d[3], fn))
        if d[0] == 'select':
            return '(%s ? %s : %s)' % (s.sval(d[1], fn), s.sval(d[2], fn), s.sval(d[3], fn))
        raise ValueError(d)
    def cast(s, op, a, dt, fn):
        x = s.sval(a, fn); st = a.ty
        if op in ('bitcast', 'addrspacecast'):
            if isinstance(st, (PtrTy,)) and isinstance(dt, PtrTy): return x
            if s.cty(st) == s.cty(dt): return x
            return 'VERIF_BITCAST(%s,%s,%s)' % (s.cty(dt), s.cty(st), x)
        if op == 'ptrtoint': return '((%s)(uintptr_t)%s)' % (s.cty(dt), x)
        if op == 'inttoptr': return '((char*)(uintptr_t)%s)' % x
        if op == 'zext': return '((%s)%s)' % (s.cty(dt), x)
        if op == 'trunc': return s.mask(dt, '((%s)%s)' % (s.cty(dt), x))
        if op == 'sext':
            if st.bits == 1: return '((%s)(%s ? -1 : 0))' % (s.cty(dt), x)
            return s.mask(dt, '((%s)(%s)%s)' % (s.cty(dt), s.scty(dt), s.signed(st, x)))
        if op in ('uitofp',): return '((%s)%s)' % (s.cty(dt), x)
        if op in ('sitofp',): return '((%s)%s)' % (s.cty(dt), s.signed(st, x))
        if op in ('fptoui',): return '((%s)%s)' % (s.cty(dt), x)
        if op in ('fptosi',): return '((%s)(%s)%s)' % (s.cty(dt), s.scty(dt), x)
        if op in ('fpext', 'fptrunc'): return '((%s)%s)' % (s.cty(dt), x)
        raise ValueError(op)
    def scty(s, t):
        c = s.cty(t)
        if c == '_Bool': return 'int8_t'
        if c.startswith('uint'): return c[1:]
        if c == 'unsigned __int128': return '__int128'
        return c
    def signed(s, t, x):
        """x (unsigned C type of width container) -> signed value of exactly t.bits"""
        w = s.cbits(t)
        if t.bits == w: return '((%s)%s)' % (s.scty(t), x)
        sh = w - t.bits
        return '((%s)((%s)(%s << %d)) >> %d)' % (s.scty(t), s.scty(t), x, sh, sh)
    def cbits(s, t):
        for w in (8, 16, 32, 64, 128):
            if t.bits <= w: return w
    def mask(s, t, x):
        if not isinstance(t, IntTy) or t.bits in (1, 8, 16, 32, 64, 128): return x
        return '((%s)(%s & %dULL))' % (s.cty(t), x, (1 << t.bits) - 1)
    def binop(s, op, t, a, b):
        if isinstance(t, FloatTy):
            o = {'fadd': '+', 'fsub': '-', 'fmul': '*', 'fdiv': '/'}[op]; return '(%s %s %s)' % (a, o, b)
        c = s.cty(t)
        if t.bits == 1:
            o = {'add': '^', 'sub': '^', 'mul': '&', 'and': '&', 'or': '|', 'xor': '^'}.get(op)
            if o: return '((_Bool)((%s %s %s) & 1))' % (a, o, b)
        wide = 'unsigned __int128' if t.bits > 64 else ('uint64_t' if t.bits > 32 else 'uint32_t')
        if op in ('add', 'sub', 'mul', 'and', 'or', 'xor'):
            o = {'add': '+', 'sub': '-', 'mul': '*', 'and': '&', 'or': '|', 'xor': '^'}[op]
            return s.mask(t, '((%s)((%s)%s %s (%s)%s))' % (c, wide, a, o, wide, b))
        if op == 'udiv': return '((%s)(%s / %s))' % (c, a, b)
        if op == 'urem': return '((%s)(%s %% %s))' % (c, a, b)
        if op == 'sdiv': return s.mask(t, '((%s)(%s / %s))' % (c, s.signed(t, a), s.signed(t, b)))
        if op == 'srem': return s.mask(t, '((%s)(%s %% %s))' % (c, s.signed(t, a), s.signed(t, b)))
        if op == 'shl': return s.mask(t, '((%s)((%s)%s << %s))' % (c, wide, a, b))
        if op == 'lshr': return '((%s)(%s >> %s))' % (c, a, b)
        if op == 'ashr': return s.mask(t, '((%s)(%s >> %s))' % (c, s.signed(t, a), b))
        raise ValueError(op)
    def icmp(s, pred, t, a, b):
        if isinstance(t, PtrTy):
            o = {'eq': '==', 'ne': '!=', 'ult': '<', 'ule': '<=', 'ugt': '>', 'uge': '>='}.get(pred)
            if o in ('==', '!='): return '((_Bool)(%s %s %s))' % (a, o, b)
            return '((_Bool)((uintptr_t)%s %s (uintptr_t)%s))' % (a, o, b)
        o = {'eq': '==', 'ne': '!=', 'ult': '<', 'ule': '<=', 'ugt': '>', 'uge': '>=',
             'slt': '<', 'sle': '<=', 'sgt': '>', 'sge': '>='}[pred]
        if pred[0] == 's' and t.bits > 1:
            return '((_Bool)(%s %s %s))' % (s.signed(t, a), o, s.signed(t, b))
        return '((_Bool)(%s %s %s))' % (a, o, b)

    def gep(s, bt, ops, fn):
        """typed path when possible"""
        base = s.sval(ops[0], fn)
        idx0 = ops[1]
        cur = bt
        if isinstance(bt, (FnTy, VoidTy)) or (isinstance(bt, StructTy) and bt.opaque):
            return base
        if idx0.kind == 'int' and idx0.data < 0 and len(ops) > 2 and all(o.kind == 'int' for o in ops[2:]):
            # derived-from-base cast (`static_cast<D*>(node)`): ONE gep `node, -k, field`; the typed rendering &p[-k].f would form the
            # intermediate address p - k*sizeof, which may lie before the object although the gep's result does not -> one byte offset
            off = idx0.data * size_of(bt); c2 = bt; ok = True
            for o in ops[2:]:
                if isinstance(c2, StructTy): off += field_off(c2, o.data); c2 = c2.fields[o.data]
                elif isinstance(c2, ArrTy): off += o.data * size_of(c2.el); c2 = c2.el
                else: ok = False; break
            if ok: return '((char*)%s + (%d))' % (base, off)
        expr = '((%s*)%s)' % (s.cty_mem(bt), base)
        first = s.idx(idx0, fn)
        if first is None: acc = '(*%s)' % expr
        else: acc = '%s[%s]' % (expr, first)
        if len(ops) == 2 and first is not None and idx0.kind != 'int' and getattr(s.opts, 'null_gep_ok', False):
            # --null-gep-ok: `p + i` with a variable i is defined for a null p when i == 0 (C++ [expr.add], LLVM gep); C checkers flag NULL + 0
            return '(%s ? ((char*)&%s) : (char*)%s)' % (first, acc, base)
        for o in ops[2:]:
            if isinstance(cur, StructTy):
                k = o.data
                if size_of(cur.fields[k]) == 0:
                    # zero-sized field: byte offset fallback
                    acc = '(*(%s*)((char*)&%s + %d))' % (s.cty_mem_or_char(cur.fields[k]), acc, field_off(cur, k))
                else:
                    acc = '%s.f%d' % (acc, k)
                cur = cur.fields[k]
            elif isinstance(cur, ArrTy):
                i = s.idx(o, fn)
                if cur.n == 0:
                    acc = '((%s*)&%s)[%s]' % (s.cty_mem(cur.el), acc, i or '0')
                else:
                    acc = '%s[%s]' % (acc, i or '0')
                cur = cur.el
            else:
                raise ValueError('gep into %r' % (cur,))
        return '((char*)&%s)' % acc
    def cty_mem(s, t):
        """C type for an in-memory object of LLVM type t (arrays are real arrays via typedef)."""
        if isinstance(t, ArrTy):
            return s.arr_typedef(t)
        return s.cty(t)
    def cty_mem_or_char(s, t):
        try:
            if size_of(t) == 0: return 'char'
        except Exception: pass
        return s.cty_mem(t)
    def arr_typedef(s, t):
        k = 'TD' + repr(t)
        if k in s.struct_names: return s.struct_names[k]
        nm = 'T%d' % len(s.struct_names); s.struct_names[k] = nm
        n = t.n
        s.struct_defs.append('typedef %s;' % s.decl(t.el, '%s[%d]' % (nm, max(n, 1))))
        return nm
    def idx(s, v, fn):
        if v.kind == 'int':
            return None if v.data == 0 else str(v.data)
        return '(%s)' % s.signed(v.ty, s.sval(v, fn))

    # ---- global initialisers
    def init(s, v):
        t = v.ty
        if v.kind in ('zero', 'undef'):
            return '{0}' if isinstance(t, (StructTy, ArrTy)) else '0'
        if v.kind == 'agg':
            if isinstance(t, StructTy):
                parts = [s.init(e) for i, e in enumerate(v.data) if size_of(t.fields[i]) != 0]
            else:
                parts = [s.init(e) for e in v.data]
            return '{%s}' % ', '.join(parts or ['0'])
        if v.kind == 'str':
            raw = v.data[2:-1]; bs = []
            i = 0
            while i < len(raw):
                if raw[i] == '\\':
                    if raw[i+1] == '\\': bs.append(92); i += 2
                    else: bs.append(int(raw[i+1:i+3], 16)); i += 3
                else: bs.append(ord(raw[i])); i += 1
            return '{%s}' % ','.join(map(str, bs))
        return s.sval(v)

    # ---- reachability
    def fname(s, name):
        f = s.mod.funcs[name]
        c = cid(name)
        if c.startswith('__CPROVER_') or c.startswith('nondet_') or c.startswith('verif_'): return c
        if s.is_ext(name): return 'ext_' + c
        return 'f_' + c
    def is_ext(s, name):
        f = s.mod.funcs[name]
        if not hasattr(f, 'body_lines'): return True
        for r in s.opts.stub:
            if re.search(r, name): return True
        return False
    def is_nop(s, name):
        for r in s.opts.nop:
            if re.search(r, name): return True
        return False
    def need_func(s, name):
        if name in s.seen_funcs: return
        s.seen_funcs.add(name); s.needed_funcs.append(name)
    def need_global(s, name):
        if name in s.seen_globals: return
        s.seen_globals.add(name); s.needed_globals.append(name)

    def vtable_slots(s):
        """slot index (relative to the address point, Itanium ABI: entries start 2 words into each sub-table) -> set of functions"""
        if hasattr(s, '_vslots'): return s._vslots
        slots = collections.defaultdict(set)
        def walk(v):
            if v.kind == 'agg' and isinstance(v.ty, ArrTy):
                for i, e in enumerate(v.data):
                    fn = None
                    if e.kind == 'global': fn = e.data
                    elif e.kind == 'cexpr' and e.data[0] == 'cast' and e.data[2].kind == 'global': fn = e.data[2].data
                    if fn and fn in s.mod.funcs and i >= 2: slots[i - 2].add(fn)
            elif v.kind == 'agg':
                for e in v.data: walk(e)
        for name, g in s.mod.globals.items():
            if name.startswith('@_ZTV') and g.init is not None: walk(g.init)
        s._vslots = slots; return slots
    def proto(s, name):
        f = s.mod.funcs[name]
        ps = ', '.join(s.cty(t) for t, _ in f.params) or 'void'
        if f.vararg: ps += ', ...' if f.params else ''
        return '%s %s(%s)' % (s.cty(f.ret), s.fname(name), ps)

    def run(s, roots):
        for r in roots: s.need_func(r)
        bodies = []; i = 0
        gi = 0
        gdefs = []
        while i < len(s.needed_funcs) or gi < len(s.needed_globals):
            while i < len(s.needed_funcs):
                name = s.needed_funcs[i]; i += 1
                if s.is_ext(name): s.ext_funcs.add(name); continue
                f = s.mod.funcs[name]
                if s.is_nop(name):
                    r = '' if isinstance(f.ret, VoidTy) else 'return (%s){0};' % s.cty(f.ret) if isinstance(f.ret, (StructTy, ArrTy)) else 'return 0;'
                    bodies.append('%s { %s }' % (s.proto_named(name), r)); continue
                parse_body(s.mod, f)
                bodies.append(FnEmit(s, f).emit())
            while gi < len(s.needed_globals):
                name = s.needed_globals[gi]; gi += 1
                g = s.mod.globals[name]
                d = s.decl_mem(g.ty, cid(name) + ('[VERIF_MAX_OS_THREADS]' if g.tls else ''))
                if g.init is None:
                    gdefs.append('extern %s;' % d)
                else:
                    ini = s.init(g.init)
                    if g.tls:
                        gdefs.append('%s;' % d if g.init.kind in ('zero', 'null') or (g.init.kind == 'int' and g.init.data == 0) else '%s = {%s};' % (d, ', '.join([ini] * 4)))
                    else:
                        gdefs.append('%s = %s;' % (d, ini))
        out = ['#include "verif_rt.h"'] + ['extern void %s();' % h for h in sorted(s.hooks)]
        out += s.struct_defs
        for n in s.needed_funcs:
            if any(re.search(r, n) for r in s.opts.thread): continue
            if not s.fname(n).startswith(('__CPROVER_',)): out.append(s.proto(n) + ';')
        # globals: declare all extern first (for cross refs), then define
        for n in s.needed_globals:
            g = s.mod.globals[n]
            out.append('extern %s;' % s.decl_mem(g.ty, cid(n) + ('[VERIF_MAX_OS_THREADS]' if g.tls else '')))
        out += gdefs
        out += bodies
        return '\n'.join(out) + '\n'
    def decl_mem(s, t, name):
        if isinstance(t, ArrTy): return s.decl(t.el, '%s[%d]' % (name, max(t.n, 1))) if not isinstance(t.el, ArrTy) else '%s %s' % (s.arr_typedef(t), name)
        return '%s %s' % (s.cty(t), name)
    def proto_named(s, name):
        f = s.mod.funcs[name]
        ps = ', '.join('%s a%d' % (s.cty(t), i) for i, (t, _) in enumerate(f.params)) or 'void'
        return '%s %s(%s)' % (s.cty(f.ret), s.fname(name), ps)

INTRIN_IGNORE = ('llvm.dbg.', 'llvm.lifetime.', 'llvm.assume', 'llvm.experimental.noalias', 'llvm.invariant.', 'llvm.prefetch', 'llvm.var.annotation', 'llvm.donothing')

class FnEmit:
    def __init__(s, em, f):
        s.em = em; s.f = f; s.names = {}; s.decls = []; s.types = {}
        s.thread = any(re.search(r, f.name) for r in em.opts.thread); s.ncs = 0; s.priv = set()
        # unnamed params get %0.. numbering
        n = 0
        for i, (t, pn) in enumerate(f.params):
            if pn is None: pn = '%%%d' % n; n += 1
            elif re.fullmatch(r'%[0-9]+', pn): n = int(pn[1:]) + 1
            s.types[pn] = t
            f.params[i] = (t, pn)
        # entry block label = next number if unnamed
        s.entry_label = '%%%d' % n
    def lname(s, n):
        if n in getattr(s, 'inl', ()): return s.inl[n]
        if s.thread and n not in getattr(s, 'blocklocal', ()): return 'F->v_' + cid(n)
        return 'v_' + cid(n)
    def gep_multidim_symbolic(s, I):
        """address of an element of an array-of-arrays with a non-constant index.  CBMC 6.11 mis-simplifies `*&a[c][i]` for
        multi-dimensional arrays when the address-of and the dereference are in one expression (reads a wrong value:
        `uint8_t g[3][2]; *&g[1][j]` with g all zero yields 2), while `p = &a[c][i]; *p` is handled correctly - so such
        addresses are never rendered inline at their use."""
        t = I.bt; arrays = 0; sym = I.ops[1].kind != 'int'
        for o in I.ops[2:]:
            if isinstance(t, StructTy):
                t = t.fields[o.data]; arrays = 0 if arrays < 2 else arrays
            elif isinstance(t, ArrTy):
                arrays += 1
                if o.kind != 'int': sym = True
                t = t.el
            else: break
        return arrays >= 2 and sym
    def cs_kind(s, I):
        """None, 'pre' (context-switch point before the instruction) or 'mid' (two-phase blocking call: split inside)"""
        if not s.thread: return None
        em = s.em; o = em.opts
        if I.op == 'call':
            if I.asm:
                hook = o.asm.get(I.asm[0].strip('"'))
                return 'mid' if (hook or '').startswith('verif_switch') else None
            c = I.callee
            if c.kind == 'global':
                name = c.data
                while name in em.mod.aliases and em.mod.aliases[name].kind == 'global': name = em.mod.aliases[name].data
                if any(re.search(rx, name) for rx, _ in o.blocking): return 'mid' if (o.cs_none or not o.cs_before_blocking) else 'premid'
                if name[1:].startswith('verif_block'): return 'pre'
            return None
        if o.cs_none: return None
        if I.op in ('cmpxchg', 'atomicrmw'): return 'pre'
        if I.op in ('load', 'store') and (I.atomic or not o.cs_atomic_only):
            if I.ptr.kind == 'local' and I.ptr.data in s.priv: return None
            return 'pre'
        return None
    def plan_inlining(s):
        """Locality analysis.  A value whose definition and every use lie in the same *segment* (part of one basic block
        between two context-switch points; the whole block in sequential mode) is (a) rendered at its use when it is a
        pure single-use expression, or (b) declared in a C block scope around that segment, so CBMC kills it at the closing
        brace and it takes no part in later path merges.  Everything else is a function-level local (sequential mode) or a
        field of the resumable frame (thread mode).  Safe because SSA operands are immutable and, inside one basic block,
        the C variables standing for phi nodes are not reassigned."""
        s.inl = {}; s.inl_ok = set(); s.blocklocal = {}; s.segof = {}
        defs = {}; uses = collections.defaultdict(list); lastseg = {}
        def vals(I):
            for k, v in I.__dict__.items():
                if isinstance(v, V): yield v
                elif isinstance(v, list):
                    for x in v:
                        if isinstance(x, V): yield x
                        elif isinstance(x, tuple) and x and isinstance(x[0], V): yield x[0]
        phi_uses = []
        for bl, ins in s.f.blocks.items():
            seg = 0
            for I in ins:
                k = s.cs_kind(I) if I.op != 'phi' else None
                if k == 'pre': seg += 1; useseg = defseg = seg
                elif k == 'mid': useseg = seg; seg += 1; defseg = seg
                elif k == 'premid': seg += 1; useseg = seg; seg += 1; defseg = seg      # pre-emption point before a blocking call, then the split inside it
                else: useseg = defseg = seg
                s.segof[id(I)] = (useseg, defseg)
                if I.res is not None: defs[I.res] = (bl, defseg, I)
                if I.op == 'phi':
                    for val, lb in I.inc:
                        if val.kind == 'local': phi_uses.append((val.data, '%entry__' if (lb == s.entry_label and lb not in s.f.blocks) else lb))
                else:
                    for v in vals(I):
                        if v.kind == 'local': uses[v.data].append((bl, useseg))
            lastseg[bl] = seg
        for r, lb in phi_uses: uses[r].append((lb, lastseg.get(lb, 0)))
        for r, (bl, seg, I) in defs.items():
            if I.op in ('phi', 'alloca'): continue
            if all(u == (bl, seg) for u in uses.get(r, [])):
                s.blocklocal[r] = (bl, seg)
        if s.em.opts.no_inline_expr: return
        for r, (bl, seg, I) in defs.items():
            pure = (I.op == 'bin' and I.bop not in ('udiv', 'sdiv', 'urem', 'srem') and not isinstance(I.ty, FloatTy)) or \
                   I.op in ('icmp', 'cast', 'gep') or (I.op == 'select')
            if not pure or r not in s.blocklocal: continue
            if I.op == 'gep' and s.gep_multidim_symbolic(I): continue
            ub = uses.get(r, [])
            if not ub: continue
            if len(ub) > 1 and I.op not in ('gep', 'cast'): continue
            if len(ub) > 3: continue
            s.inl_ok.add(r)
    def rpo_blocks(s):
        """blocks in reverse post-order, so that only genuine loop back edges are backward gotos in the C
        (CBMC merges paths at forward gotos only and counts every backward goto as a loop iteration)"""
        f = s.f; blocks = f.blocks
        def norm(l): return '%entry__' if (l == s.entry_label and l not in blocks) else l
        succ = {}
        for bl, ins in blocks.items():
            out = []
            if ins:
                T = ins[-1]
                if T.op == 'br': out = [T.dest]
                elif T.op == 'condbr': out = [T.t, T.f]
                elif T.op == 'switch': out = [T.default] + [lb for _, lb in T.cases]
            succ[bl] = [norm(x) for x in out]
        order = []; seen = set()
        entry = next(iter(blocks))
        stack = [(entry, iter(succ[entry]))]; seen.add(entry)
        while stack:
            b, it = stack[-1]
            for n in it:
                if n not in seen and n in blocks:
                    seen.add(n); stack.append((n, iter(reversed(succ[n])))); break
            else:
                order.append(b); stack.pop()
        order.reverse()
        res = collections.OrderedDict()
        for b in order: res[b] = blocks[b]
        return res
    def private_ptrs(s):
        """allocas (and pointers derived from them) that never escape"""
        f = s.f; defs = {}
        for bl, ins in f.blocks.items():
            for I in ins:
                if I.res: defs[I.res] = I
        cand = set(I.res for I in defs.values() if I.op == 'alloca')
        derived = {a: a for a in cand}
        changed = True
        while changed:
            changed = False
            for r, I in defs.items():
                if r in derived: continue
                if I.op == 'gep' and I.ops[0].kind == 'local' and I.ops[0].data in derived:
                    derived[r] = derived[I.ops[0].data]; changed = True
                if I.op == 'cast' and I.cop == 'bitcast' and I.a.kind == 'local' and I.a.data in derived:
                    derived[r] = derived[I.a.data]; changed = True
        escaped = set()
        def uses(I):
            for k, v in I.__dict__.items():
                if isinstance(v, V): yield k, v
                elif isinstance(v, list):
                    for x in v:
                        if isinstance(x, V): yield k, x
                        elif isinstance(x, tuple) and isinstance(x[0], V): yield k, x[0]
        for bl, ins in f.blocks.items():
            for I in ins:
                for k, v in uses(I):
                    if v.kind == 'local' and v.data in derived:
                        ok = (I.op == 'load' and k == 'ptr') or (I.op == 'store' and k == 'ptr') or \
                             (I.op == 'gep' and v is I.ops[0]) or (I.op == 'cast' and I.cop == 'bitcast') or \
                             (I.op == 'call' and I.callee.kind == 'global' and I.callee.data.startswith(('@llvm.lifetime', '@llvm.memset', '@llvm.dbg')))
                        if not ok: escaped.add(derived[v.data])
        return set(r for r, a in derived.items() if a not in escaped)
    def cs(s, ptr=None):
        """context-switch point (thread mode only)"""
        if not s.thread or s.em.opts.cs_none: return []
        if ptr is not None and ptr.kind == 'local' and ptr.data in s.priv: return []
        s.ncs += 1; k = s.ncs
        return ['if (verif_cs()) { F->pc = %d; return 1; }' % k, '@@CS %d@@' % k]
    def label(s, n):
        if n == '%entry__': return 'L_entry'
        return 'L_' + cid(n)
    def emit(s):
        em = s.em; f = s.f
        # pass 1: result types
        for bl, ins in f.blocks.items():
            for I in ins:
                if I.res is not None:
                    t = I.ty
                    if I.op in ('icmp', 'fcmp'):
                        t = IntTy(1); I.rty = t
                    if I.op == 'extractvalue':
                        t = I.a.ty if I.a.kind != 'local' else s.types[I.a.data]
                        if I.a.kind == 'local': I.a.ty = t
                        for k in I.idx:
                            t = t.fields[k] if isinstance(t, StructTy) else t.el
                        I.ty = t
                    s.types[I.res] = t
        s.defs = {}
        for bl, ins in f.blocks.items():
            for I in ins:
                if I.res is not None: s.defs[I.res] = I
        if s.thread: s.priv = s.private_ptrs()
        body = []
        f.blocks = s.rpo_blocks()
        s.plan_inlining()
        # phi lowering: direct assignment on the edge unless a phi of the block reads another phi of the same block (swap problem)
        s.direct_phi = set()
        for bl, ins in f.blocks.items():
            phis = [I for I in ins if I.op == 'phi']
            names = set(I.res for I in phis)
            # (only single-phi blocks: with several phis an inlined incoming expression could read a sibling phi that was already updated)
            if len(phis) == 1:
                s.direct_phi.add(bl)
        for bl, ins in f.blocks.items():
            lab = bl
            body.append('%s: ;' % s.label(lab))
            # phis at head: assign from __in
            for I in ins:
                if I.op == 'phi' and bl not in s.direct_phi: body.append('  %s = %s__in;' % (s.lname(I.res), s.lname(I.res)))
            segs = [[]]
            for I in ins:
                if I.op == 'phi': continue
                for x in s.instr(I, bl):
                    m = re.fullmatch(r'@@CS (\d+)@@', x)
                    if m: segs.append(int(m.group(1))); segs.append([])
                    else: segs[-1].append('  ' + x)
            # segment-local values are declared in a C block scope around their segment (see plan_inlining)
            k = 0
            for part in segs:
                if isinstance(part, int):
                    body.append('CS_%d: ;' % part); k += 1; continue
                ld = ['  %s v_%s;' % (em.cty(s.types[n]), cid(n)) for n, b in s.blocklocal.items()
                      if b == (bl, k) and n not in s.inl and s.types.get(n) is not None and not isinstance(s.types[n], VoidTy)]
                body += ['{'] + ld + part + ['}']
        if s.thread:
            nm = em.fname(f.name)
            fields = []
            for n, t in s.types.items():
                if isinstance(t, VoidTy) or t is None or n in s.inl or n in s.blocklocal: continue
                fields.append('  %s v_%s;' % (em.cty(t), cid(n)))
            for bl, ins in f.blocks.items():
                for I in ins:
                    if I.op == 'phi' and bl not in s.direct_phi: fields.append('  %s v_%s__in;' % (em.cty(I.ty), cid(I.res)))
            fields += [d.replace('F->', '') for d in s.decls]
            sw = ' '.join('case %d: goto CS_%d;' % (k, k) for k in range(1, s.ncs + 1))
            return ('struct FR_%s { int pc;\n%s\n};\nstruct FR_%s FRI_%s[VERIF_MAX_INST];\n'
                    'int run_%s(int inst) {\n  struct FR_%s* F = &FRI_%s[inst];\n  switch (F->pc) { case 0: break; %s default: __CPROVER_assume(0); }\n%s\n}\n'
                    '/* %s: %d context-switch points */'
                    % (nm, '\n'.join(fields), nm, nm, nm, nm, nm, sw, '\n'.join(body), nm, s.ncs))
        ps = ', '.join('%s %s' % (em.cty(t), s.lname(pn)) for t, pn in f.params) or 'void'
        hdr = '%s %s(%s)' % (em.cty(f.ret), em.fname(f.name), ps)
        decls = []
        for n, t in s.types.items():
            if any(n == pn for _, pn in f.params): continue
            if isinstance(t, VoidTy) or t is None or n in s.inl or n in s.blocklocal: continue
            decls.append('  %s %s;' % (em.cty(t), s.lname(n)))
        for bl, ins in f.blocks.items():
            for I in ins:
                if I.op == 'phi' and bl not in s.direct_phi: decls.append('  %s %s__in;' % (em.cty(I.ty), s.lname(I.res)))
        return '%s {\n%s\n%s\n%s\n}' % (hdr, '\n'.join(decls), '\n'.join(s.decls), '\n'.join(body))
    def v(s, x):
        if x.kind == 'local' and x.ty is None: x.ty = s.types[x.data]
        return s.em.sval(x, s)
    def phi_moves(s, frm, to):
        out = []
        real_from = frm
        for I in s.f.blocks[to]:
            if I.op != 'phi': break
            for val, lb in I.inc:
                if lb == frm or (frm == '%entry__' and lb == s.entry_label):
                    out.append('%s%s = %s;' % (s.lname(I.res), '' if to in s.direct_phi else '__in', s.v(val)))
                    break
            else:
                raise ValueError('phi %s has no incoming from %s' % (I.res, frm))
        return out
    def goto(s, frm, to):
        return ' '.join(s.phi_moves(frm, to) + ['goto %s;' % s.label(to)])
    def instr(s, I, bl):
        em = s.em; op = I.op
        if I.res in s.inl_ok:
            if op == 'bin': e = em.binop(I.bop, I.ty, s.v(I.a), s.v(I.b))
            elif op == 'icmp': e = em.icmp(I.pred, I.ty, s.v(I.a), s.v(I.b))
            elif op == 'cast': e = em.cast(I.cop, s.tv(I.a), I.ty, s)
            elif op == 'select': e = '(%s ? %s : %s)' % (s.v(I.c), s.v(I.a), s.v(I.b))
            else: e = em.gep(I.bt, [s.tv(o) for o in I.ops], s)
            if len(e) <= 600:
                s.inl[I.res] = e; return []
        R = s.lname(I.res) if I.res else None
        if op == 'bin': return ['%s = %s;' % (R, em.binop(I.bop, I.ty, s.v(I.a), s.v(I.b)))]
        if op == 'icmp': return ['%s = %s;' % (R, em.icmp(I.pred, I.ty, s.v(I.a), s.v(I.b)))]
        if op == 'fcmp':
            o = {'oeq': '==', 'one': '!=', 'olt': '<', 'ole': '<=', 'ogt': '>', 'oge': '>=', 'ueq': '==', 'une': '!=', 'ult': '<', 'ule': '<=', 'ugt': '>', 'uge': '>='}[I.pred]
            return ['%s = (%s %s %s);' % (R, s.v(I.a), o, s.v(I.b))]
        if op == 'cast': return ['%s = %s;' % (R, em.cast(I.cop, s.tv(I.a), I.ty, s))]
        if op == 'select': return ['%s = %s ? %s : %s;' % (R, s.v(I.c), s.v(I.a), s.v(I.b))]
        if op == 'br': return [s.goto(bl, I.dest)]
        if op == 'condbr':
            # a loop back edge is emitted as the *else* arm: CBMC executes the deferred arm after unwinding the other one, and
            # then resolves block-scoped locals of the loop body to the last iteration's instance (spurious values on the exit
            # path, reported by the C10 harness work); with the exit arm first it runs inside its own iteration
            order = getattr(s, 'border', None)
            if order is None:
                order = s.border = {b: i for i, b in enumerate(s.f.blocks)}
            back_t = order.get(I.t, 1 << 30) <= order.get(bl, 0); back_f = order.get(I.f, 1 << 30) <= order.get(bl, 0)
            if back_t and not back_f:
                return ['if (!(%s)) { %s } else { %s }' % (s.v(I.c), s.goto(bl, I.f), s.goto(bl, I.t))]
            return ['if (%s) { %s } else { %s }' % (s.v(I.c), s.goto(bl, I.t), s.goto(bl, I.f))]
        if op == 'switch':
            out = []
            for cv, lb in I.cases:
                out.append('if (%s == %s) { %s }' % (s.v(I.c), s.v(cv), s.goto(bl, lb)))
            out.append(s.goto(bl, I.default)); return out
        if op == 'ret':
            if s.thread: return ['F->pc = -1; return 0;']
            return ['return %s;' % (s.v(I.v) if I.v else '')]
        if op == 'unreachable':
            # a failed assertion does not end the path for the checker; without a return control would fall into the textually next block
            if getattr(s.em.opts, 'unreachable_returns', False) and not s.thread and isinstance(s.f.ret, VoidTy): return ['VERIF_UNREACHABLE();', 'return;']
            return ['VERIF_UNREACHABLE();']
        if op == 'alloca':
            st = '%s__store' % R
            n = 1
            if I.n is not None:
                if I.n.kind != 'int': raise ValueError('dynamic alloca')
                n = I.n.data
            if n == 1: s.decls.append('  %s;' % em.decl_mem(I.aty, st))
            else: s.decls.append('  %s;' % em.decl_mem(ArrTy(n, I.aty), st))
            return ['%s = (char*)&%s;' % (R, st)]
        if op == 'load':
            return (s.cs(I.ptr) if (I.atomic or not em.opts.cs_atomic_only) else []) + ['%s = *(%s*)%s;' % (R, em.cty(I.ty), s.v(I.ptr))]
        if op == 'store':
            r = (s.cs(I.ptr) if (I.atomic or not em.opts.cs_atomic_only) else []) + ['*(%s*)%s = %s;' % (em.cty(I.v.ty), s.v(I.ptr), s.v(I.v))]
            if I.atomic and I.order == 'seq_cst': r.append('VERIF_FENCE();')
            return r
        if op == 'gep': return ['%s = %s;' % (R, em.gep(I.bt, [s.tv(o) for o in I.ops], s))]
        if op == 'cmpxchg':
            ct = em.cty(I.cmp.ty); p = s.v(I.ptr)
            return s.cs() + ['__CPROVER_atomic_begin(); %s.f0 = *(%s*)%s; %s.f1 = (%s.f0 == %s); if (%s.f1) *(%s*)%s = %s; __CPROVER_atomic_end(); VERIF_FENCE();'
                    % (R, ct, p, R, R, s.v(I.cmp), R, ct, p, s.v(I.new))]
        if op == 'atomicrmw':
            ct = em.cty(I.v.ty); p = s.v(I.ptr); x = s.v(I.v)
            if I.rop == 'xchg': new = x
            elif I.rop in ('add', 'sub', 'and', 'or', 'xor'): new = em.binop(I.rop, I.v.ty, R, x)
            elif I.rop in ('umax', 'umin'): new = '(%s %s %s ? %s : %s)' % (R, '>' if I.rop == 'umax' else '<', x, R, x)
            else: raise ValueError(I.rop)
            return s.cs() + ['__CPROVER_atomic_begin(); %s = *(%s*)%s; *(%s*)%s = %s; __CPROVER_atomic_end(); VERIF_FENCE();' % (R, ct, p, ct, p, new)]
        if op == 'fence': return ['VERIF_FENCE();' if 'seq_cst' in I.order else ';']
        if op == 'extractvalue':
            e = s.v(I.a)
            t = I.a.ty
            for k in I.idx:
                e += ('.f%d' % k) if isinstance(t, StructTy) else ('.a[%d]' % k)
                t = t.fields[k] if isinstance(t, StructTy) else t.el
            return ['%s = %s;' % (R, e)]
        if op == 'insertvalue':
            e = R; t = I.ty
            for k in I.idx:
                e += ('.f%d' % k) if isinstance(t, StructTy) else ('.a[%d]' % k)
                t = t.fields[k] if isinstance(t, StructTy) else t.el
            return ['%s = %s; %s = %s;' % (R, s.v(I.a), e, s.v(I.v))]
        if op == 'call': return s.call(I, R)
        if op == 'unsupported': return ['VERIF_UNSUPPORTED("%s");' % I.what]
        raise ValueError(op)
    def tv(s, x):
        if x.kind == 'local' and x.ty is None: x.ty = s.types[x.data]
        return x
    def call(s, I, R):
        em = s.em
        args = [s.v(a) for a in I.args]
        asg = '%s = ' % R if R and not isinstance(I.ty, VoidTy) else ''
        if I.asm:
            a = I.asm[0]
            key = a.strip('"')
            hook = em.opts.asm.get(key)
            if hook is None: raise ValueError('unknown inline asm %r' % a)
            if hook == 'identity': return ['%s%s;' % (asg, args[0])]
            if s.thread and hook.startswith('verif_switch'):
                s.ncs += 1; k = s.ncs
                em.hooks.add(hook)
                return ['%s(%s); F->pc = %d; return 1;' % (hook, ', '.join(args), k), '@@CS %d@@' % k]
            em.hooks.add(hook)
            if asg: return ['%s((char*)&%s%s);' % (hook, R, ''.join(', ' + a for a in args))]
            return ['%s(%s);' % (hook, ', '.join(args))]
        c = I.callee
        if c.kind == 'global':
            name = c.data
            n = name[1:]
            if n.startswith('llvm.'):
                return s.intrinsic(n, I, R, args, asg)
            while name in em.mod.aliases and em.mod.aliases[name].kind == 'global': name = em.mod.aliases[name].data
            for rx, fn in em.opts.map:
                if re.search(rx, name):
                    mn = '@' + fn; em.need_func(mn)
                    return ['%s%s(%s);' % (asg, em.fname(mn), ', '.join(args))]
            cargs = list(args)
            for rx, fns in em.opts.blocking:
                if re.search(rx, name):
                    b, e = fns.split(',')
                    bn = [k for k in em.mod.funcs if k == '@' + b][0]; en = [k for k in em.mod.funcs if k == '@' + e][0]
                    em.need_func(bn); em.need_func(en)
                    if not s.thread: raise ValueError('blocking call outside thread entry: ' + s.f.name)
                    pre = s.cs() if (em.opts.cs_before_blocking and not em.opts.cs_none) else []     # pre-emptive mode: another vCPU may run between the caller's last step and the blocking call
                    s.ncs += 1; k = s.ncs
                    if (rx, fns) in [tuple(x) for x in em.opts.blockingc]:
                        # conditional form: begin() returns non-zero iff the caller has to give up the processor
                        return pre + ['if (%s(%s)) { F->pc = %d; return 2; }' % (em.fname(bn), ', '.join(args), k), '@@CS %d@@' % k, '%s%s();' % (asg, em.fname(en))]
                    return pre + ['%s(%s); F->pc = %d; return 2;' % (em.fname(bn), ', '.join(args), k), '@@CS %d@@' % k, '%s%s();' % (asg, em.fname(en))]
            em.need_func(name)
            f = em.mod.funcs[name]
            if s.thread and n.startswith('verif_block'):
                s.ncs += 1; k = s.ncs
                return ['@@CS %d@@' % k, 'if (!%s(%s)) { F->pc = %d; return 2; }' % (n, ', '.join(args), k)]
            if s.thread and not em.is_ext(name) and not n.startswith(('__CPROVER', 'nondet_')):
                sys.stderr.write('WARNING: thread entry %s calls translated function %s (atomic)\n' % (s.f.name, name))
            if n == '__CPROVER_assert':
                a1 = I.args[1]; lit = 'assertion'
                try:
                    g = a1.data[2][0].data if a1.kind == 'cexpr' else a1.data
                    raw = em.mod.globals[g].init.data[2:-1]
                    lit = re.sub(r'\\[0-9A-Fa-f]{2}', '', raw)
                except Exception:
                    raise ValueError('__CPROVER_assert message is not a string literal in %s (merged call sites?)' % s.f.name)
                return ['__CPROVER_assert(%s, "%s");' % (args[0], lit)]
            return ['%s%s(%s);' % (asg, em.fname(name), ', '.join(cargs))]
        # indirect
        fp = s.v(c) if c.kind != 'local' else s.lname(c.data)
        slot = s.virtual_slot(c)
        if slot is not None and not em.opts.no_devirt:
            # virtual call: dispatch over the functions that occupy this slot in some vtable of the module (CBMC would otherwise try
            # every function with a compatible C signature - with all-char* signatures that is nearly every function, recursively)
            def base_name(t):
                n = getattr(t, 'name', None) or ''
                return re.sub(r'\.base(\.\d+)?"?$', lambda m: '"' if m.group(0).endswith('"') else '', n)
            def derives(ct, bt, depth=0):
                # class ct is bt or has bt as a (transitive) base sub-object: LLVM lays bases out as leading struct fields
                if not isinstance(ct, StructTy) or not isinstance(bt, StructTy): return True      # cannot tell: keep the candidate
                if base_name(ct) == base_name(bt): return True
                if depth > 6 or ct.opaque: return False
                return any(isinstance(f, StructTy) and derives(f, bt, depth + 1) for f in ct.fields)
            this_t = I.args[0].ty.to if I.args and isinstance(I.args[0].ty, PtrTy) else None
            def compatible(fn):
                f = em.mod.funcs[fn]
                if len(f.params) != len(I.args) or f.vararg: return False
                if this_t is not None and f.params and isinstance(f.params[0][0], PtrTy) and not derives(f.params[0][0].to, this_t): return False
                try:
                    if em.cty(f.ret) != em.cty(I.ty): return False
                    return [em.cty(t) for t, _ in f.params] == [em.cty(a.ty) for a in I.args]
                except Exception: return False
            cands = sorted(fn for fn in em.vtable_slots().get(slot, ()) if compatible(fn))
            if cands:
                out = []
                for k, fn in enumerate(cands):
                    em.need_func(fn)
                    out.append('%sif (%s == (char*)&%s) { %s%s(%s); }' % ('else ' if k else '', fp, em.fname(fn), asg, em.fname(fn), ', '.join(args)))
                out.append('else { __CPROVER_assert(0, "virtual call target is one of the module\'s vtable entries for this slot"); __CPROVER_assume(0); }')
                return [' '.join(out)]
        if I.fnty: ptys = [em.cty(t) for t in I.fnty.args] + (['...'] if I.fnty.vararg else [])
        else: ptys = [em.cty(a.ty) for a in I.args]
        sig = '%s (*)(%s)' % (em.cty(I.ty), ', '.join(ptys) or 'void')
        return ['%s((%s)%s)(%s);' % (asg, sig, fp, ', '.join(args))]
    def virtual_slot(s, c):
        """callee = load (gep? (load vptr), K): returns K, else None"""
        if c.kind != 'local': return None
        d = s.defs.get(c.data)
        if d is None or d.op != 'load' or d.ptr.kind != 'local': return None
        a = s.defs.get(d.ptr.data)
        if a is None: return None
        k = 0
        if a.op == 'gep':
            if len(a.ops) != 2 or a.ops[1].kind != 'int' or a.ops[0].kind != 'local': return None
            k = a.ops[1].data; a = s.defs.get(a.ops[0].data)
            if a is None: return None
        # a must be the vptr load: a load whose result type is pointer-to-pointer-to-function
        if a.op != 'load': return None
        t = a.ty
        if isinstance(t, PtrTy) and isinstance(t.to, PtrTy) and isinstance(t.to.to, FnTy): return k
        return None
    def intrinsic(s, n, I, R, args, asg):
        em = s.em
        if n.startswith(INTRIN_IGNORE): return [';']
        if n.startswith('llvm.memcpy') or n.startswith('llvm.memmove'):
            f = 'memcpy' if 'memcpy' in n else 'memmove'
            # symbolic length: a bounded byte loop (CBMC's array-copy model of memcpy with a symbolic size exhausts memory)
            if I.args[2].kind != 'int': f = getattr(em.opts, 'memcpy_n', None) if (f == 'memcpy' and getattr(em.opts, 'memcpy_n', None)) else 'verif_' + f + '_n'
            return ['%s(%s, %s, %s);' % (f, args[0], args[1], args[2])]
        if n.startswith('llvm.memset'): return ['memset(%s, %s, %s);' % (args[0], args[1], args[2])]
        if n.startswith('llvm.expect'): return ['%s%s;' % (asg, args[0])]
        if n == 'llvm.x86.sse2.pause': return ['VERIF_SPIN_HINT();']
        if n == 'llvm.trap' or n == 'llvm.debugtrap': return ['VERIF_TRAP();']
        if n.startswith('llvm.objectsize'): return ['%s(%s)-1;' % (asg, em.cty(I.ty))]
        t = I.ty
        if n.startswith(('llvm.umin', 'llvm.umax')):
            o = '<' if 'umin' in n else '>'
            return ['%s(%s %s %s) ? %s : %s;' % (asg, args[0], o, args[1], args[0], args[1])]
        if n.startswith(('llvm.smin', 'llvm.smax')):
            o = '<' if 'smin' in n else '>'
            return ['%s(%s %s %s) ? %s : %s;' % (asg, em.signed(t, args[0]), o, em.signed(t, args[1]), args[0], args[1])]
        if n.startswith('llvm.abs'):
            return ['%s(%s)(%s < 0 ? -%s : %s);' % (asg, em.cty(t), em.signed(t, args[0]), em.signed(t, args[0]), em.signed(t, args[0]))]
        if n.startswith('llvm.ctlz'): return ['%sverif_ctlz%d(%s);' % (asg, t.bits, args[0])]
        if n.startswith('llvm.cttz'): return ['%sverif_cttz%d(%s);' % (asg, t.bits, args[0])]
        if n.startswith('llvm.ctpop'): return ['%sverif_ctpop%d(%s);' % (asg, t.bits, args[0])]
        if n.startswith('llvm.bswap'): return ['%sverif_bswap%d(%s);' % (asg, t.bits, args[0])]
        if n.startswith('llvm.fshl'):
            w = t.bits; return ['%sverif_fshl%d(%s, %s, %s);' % (asg, w, args[0], args[1], args[2])]
        if n.startswith('llvm.fshr'):
            w = t.bits; return ['%sverif_fshr%d(%s, %s, %s);' % (asg, w, args[0], args[1], args[2])]
        m = re.match(r'llvm\.(u|s)(add|sub|mul)\.with\.overflow\.i(\d+)', n)
        if m:
            sg, o, w = m.group(1), m.group(2), int(m.group(3))
            return ['VERIF_OVF_%s%s(%d, %s, %s, %s);' % (sg.upper(), o.upper(), w, R, args[0], args[1])]
        m = re.match(r'llvm\.(u|s)(add|sub)\.sat\.i(\d+)', n)
        if m:
            return ['%sverif_%s%s_sat%s(%s, %s);' % (asg, m.group(1), m.group(2), m.group(3), args[0], args[1])]
        if n.startswith('llvm.x86.sse42.crc32'):
            return ['%sverif_%s(%s);' % (asg, n.replace('.', '_'), ', '.join(args))]
        if n.startswith('llvm.stacksave'): return ['%s(char*)0;' % asg]
        if n.startswith('llvm.stackrestore'): return [';']
        if n.startswith('llvm.is.constant'): return ['%s0;' % asg]
        if n.startswith('llvm.frameaddress') or n.startswith('llvm.returnaddress'): return ['%s(char*)0;' % asg]
        raise ValueError('intrinsic ' + n)

def main():
    ap = argparse.ArgumentParser()
    ap.add_argument('ll'); ap.add_argument('-o', required=True)
    ap.add_argument('--root', action='append', default=[])
    ap.add_argument('--stub', action='append', default=[], help='regex: treat as external (ext_ prefix)')
    ap.add_argument('--nop', action='append', default=[], help='regex: empty body')
    ap.add_argument('--thread', action='append', default=[], help='regex: emit as resumable thread entry')
    ap.add_argument('--blocking', action='append', default=[], help='regex=begin_fn,end_fn')
    ap.add_argument('--blockingc', action='append', default=[], help='regex=begin_fn,end_fn ; begin returns non-zero iff the thread must yield')
    ap.add_argument('--cs-atomic-only', dest='cs_atomic_only', action='store_true')
    ap.add_argument('--cs-before-blocking', dest='cs_before_blocking', action='store_true', help='pre-emptive modes: also a context-switch point right before every blocking call')
    ap.add_argument('--cs-none', dest='cs_none', action='store_true', help='cooperative: context switches only at blocking calls')
    ap.add_argument('--map', action='append', default=[], help='regex=fn : call harness fn instead')
    ap.add_argument('--asm', action='append', default=[], help='asmstring=hook')
    ap.add_argument('--memcpy-n', dest='memcpy_n', default=None, help='name of the stand-in called for memcpy with a symbolic length (default verif_memcpy_n, rt/mem.c)')
    ap.add_argument('--list', action='store_true')
    ap.add_argument('--no-inline-expr', dest='no_inline_expr', action='store_true')
    ap.add_argument('--no-devirt', dest='no_devirt', action='store_true')
    ap.add_argument('--unreachable-returns', dest='unreachable_returns', action='store_true', help='void functions: `return;` after VERIF_UNREACHABLE() (C05 join/die experiment)')
    ap.add_argument('--null-gep-ok', dest='null_gep_ok', action='store_true', help='emit single-index geps with a variable index as (i ? &p[i] : p): null + 0 is not an error')
    o = ap.parse_args()
    o.asm = dict(x.rsplit('=', 1) for x in o.asm)
    o.blockingc = [x.rsplit('=', 1) for x in o.blockingc]
    o.blocking = [x.rsplit('=', 1) for x in o.blocking] + o.blockingc
    o.map = [x.rsplit('=', 1) for x in o.map]
    o.asm.setdefault('', 'identity')
    mod = Module(); mod.parse(open(o.ll).read())
    if o.list:
        for n, f in mod.funcs.items():
            print(n, 'def' if hasattr(f, 'body_lines') else 'decl')
        return
    roots = []
    for r in o.root:
        ms = [n for n in mod.funcs if re.search(r, n) and hasattr(mod.funcs[n], 'body_lines')]
        if not ms: sys.exit('root %s matches nothing' % r)
        roots += ms
    em = Emitter(mod, o)
    c = em.run(roots)
    open(o.o, 'w').write(c)
    sys.stderr.write('functions: %d translated, externals: %s\n' % (len(em.needed_funcs) - len(em.ext_funcs), ' '.join(sorted(em.fname(x) for x in em.ext_funcs))))
    sys.stderr.write('FUNCTIONS: %s\n' % ' '.join(cid(x) for x in em.needed_funcs if x not in em.ext_funcs))

if __name__ == '__main__':
    main()
