#!/usr/bin/env python3
"""Confirms a seeded change in a scratch worktree and runs the checks against it.
usage: seedcheck.py <prop> <worktree> <patch.diff> <demo.cpp> --tests t1,t2 [--jobs j1,j2] [--out dir] [--header-only]
Steps: (1) clean tree: build lib + demo, demo must PASS; (2) apply patch, rebuild lib + named test binaries, run them (must pass),
demo must FAIL; (3) run ./check <prop> with VERIF_REPO=<worktree> (expected exit 1 with a VIOLATION line); (4) revert the patch."""
import subprocess, sys, os, argparse, json, time
ap = argparse.ArgumentParser(); ap.add_argument('prop'); ap.add_argument('wt'); ap.add_argument('patch'); ap.add_argument('demo')
ap.add_argument('--tests', default=''); ap.add_argument('--jobs', default=''); ap.add_argument('--out', default=None); ap.add_argument('--header-only', action='store_true')
ap.add_argument('--tier', default='quick'); ap.add_argument('--skip-clean', action='store_true'); ap.add_argument('--std', default='c++17')
o = ap.parse_args()
def sh(cmd, **kw):
    r = subprocess.run(cmd, shell=True, stdout=subprocess.PIPE, stderr=subprocess.STDOUT, text=True, **kw); return r.returncode, r.stdout
B = o.wt + '/_build'; res = dict(prop=o.prop, patch=o.patch, steps=[])
def build_lib():
    if o.header_only: return 0, ''
    return sh('ninja -C %s -j 6 photon_shared 2>&1 | tail -3' % B)
def build_demo(tag):
    exe = '/tmp/seed_demo_%s_%s' % (o.prop, tag)
    rc, out = sh('g++ -std=%s -O1 -w -I%s/include %s -o %s -L%s/output -lphoton -Wl,-rpath,%s/output -lpthread 2>&1 | tail -5' % (o.std, o.wt, o.demo, exe, B, B))
    return exe, out
sh('git -C %s checkout -- .' % o.wt)
if not o.skip_clean:
    build_lib(); exe, out = build_demo('clean'); rc, out2 = sh('timeout 300 ' + exe + ' > /tmp/seed_demo_out.txt 2>&1; rc=$?; tail -5 /tmp/seed_demo_out.txt; exit $rc')
    res['steps'].append(dict(step='demo on unchanged tree', rc=rc, out=out2[-400:])); print('clean demo rc', rc)
rc, out = sh('git -C %s apply %s' % (o.wt, o.patch)); assert rc == 0, out
try:
    rc, out = build_lib(); print('build lib', rc, out[-200:])
    tests = [t for t in o.tests.split(',') if t]
    for t in tests:
        rc, out = sh('ninja -C %s -j 6 %s 2>&1 | tail -2; cd %s/output && timeout 900 ./%s 2>&1 | grep -E "PASSED|FAILED|tests ran" | tail -4' % (B, t, B, t))
        res['steps'].append(dict(step='existing test ' + t + ' with the change', out=out[-500:])); print('test', t, out[-300:])
    exe, out = build_demo('mut'); rc, out2 = sh('timeout 300 ' + exe + ' > /tmp/seed_demo_out.txt 2>&1; rc=$?; tail -5 /tmp/seed_demo_out.txt; exit $rc')
    res['steps'].append(dict(step='demo with the change', rc=rc, out=out2[-400:])); print('mutated demo rc', rc, out2[-200:])
    jobs = ' '.join('--job ' + j for j in o.jobs.split(',') if j)
    t0 = time.time()
    rc, out = sh('cd /verif && VERIF_REPO=%s ./check %s --tier %s --no-evidence -j 4 %s 2>&1 | grep -E "^\\[|VIOLATION|failed:|KNOWN" | cut -c1-300' % (o.wt, o.prop, o.tier, jobs))
    res['steps'].append(dict(step='./check %s %s with VERIF_REPO=worktree' % (o.prop, jobs), out=out[-1500:], wall_s=round(time.time() - t0))); print(out[-1500:])
    res['detected'] = 'VIOLATION' in out
finally:
    sh('git -C %s checkout -- .' % o.wt)
    if not o.header_only: build_lib()
if o.out:
    os.makedirs(o.out, exist_ok=True); json.dump(res, open(o.out + '/ran.json', 'w'), indent=1)
print('DETECTED' if res.get('detected') else 'MISSED')
