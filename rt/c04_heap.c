/* C04: operator new / delete stand-ins backed by typed static pointer arrays (the only allocation in the checked code is the
 * storage of SleepQueue's std::vector<thread*>).  A malloc'ed block holding pointers is modelled by CBMC at byte level and is
 * two orders of magnitude more expensive than a static array of pointers.  Each request gets a fresh block (never reused);
 * a request larger than a block or more requests than blocks is reported as an assertion failure, not assumed away. */
#include "verif_rt.h"
#ifndef C04_BLOCK_PTRS
#define C04_BLOCK_PTRS 16
#endif
#define C04_BLOCKS 6
static char* c04_pool0[C04_BLOCK_PTRS];
static char* c04_pool1[C04_BLOCK_PTRS];
static char* c04_pool2[C04_BLOCK_PTRS];
static char* c04_pool3[C04_BLOCK_PTRS];
static char* c04_pool4[C04_BLOCK_PTRS];
static char* c04_pool5[C04_BLOCK_PTRS];
static unsigned c04_used;
unsigned c04_news, c04_deletes;
char* ext__Znwm(uint64_t n)
{
    __CPROVER_assert(n <= sizeof(c04_pool0), "C04 allocator stand-in: block large enough");
    __CPROVER_assert(c04_used < C04_BLOCKS, "C04 allocator stand-in: enough blocks");
    __CPROVER_assume(n <= sizeof(c04_pool0) && c04_used < C04_BLOCKS);
    unsigned k = c04_used++; c04_news++;
    return k == 0 ? (char*)c04_pool0 : k == 1 ? (char*)c04_pool1 : k == 2 ? (char*)c04_pool2 : k == 3 ? (char*)c04_pool3 : k == 4 ? (char*)c04_pool4 : (char*)c04_pool5;
}
void ext__ZdlPv(char* p) { c04_deletes++; }
void ext__ZdlPvm(char* p, uint64_t n) { c04_deletes++; }
static int c04_errno_v;
char* ext___errno_location(void) { return (char*)&c04_errno_v; }
void ext__ZSt17__throw_bad_allocv(void) { __CPROVER_assume(0); }
void ext__ZSt20__throw_length_errorPKc(char* c) { __CPROVER_assume(0); }
void ext__ZSt28__throw_bad_array_new_lengthv(void) { __CPROVER_assume(0); }
void ext___cxa_pure_virtual(void) { __CPROVER_assert(0, "pure virtual call"); }
void ext_abort(void) { __CPROVER_assert(0, "abort() reached"); __CPROVER_assume(0); }
/* inline asm "rdtsc" (ir2c --asm rdtsc=verif_rdtsc): the cycle counter is an arbitrary value */
uint64_t nondet_raw_u64(void);
void verif_rdtsc(char* out) { uint64_t v = nondet_raw_u64(); ((uint32_t*)out)[0] = (uint32_t)v; ((uint32_t*)out)[1] = (uint32_t)(v >> 32); }
#ifdef VERIF_NATIVE
extern int verif_os_tid;
#else
__CPROVER_thread_local int verif_os_tid = 0;
#endif
