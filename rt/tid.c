/* verif_set_tid / verif_get_tid for sequential harnesses that use the kernel contract without the scheduler (rt/sched.c defines them otherwise) */
#include "verif_rt.h"
void verif_set_tid(uint32_t t) { verif_os_tid = (int)t; }
uint32_t verif_get_tid(void) { return (uint32_t)verif_os_tid; }
