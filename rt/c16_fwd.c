/* C16 (vectored alignment-adaptor jobs): forwarding methods of ForwardFileBase<IFile> and default methods of IFile / IStream that are
 * not on the path of AlignedFileAdaptor::preadv2_mutable / pwritev2_mutable over the harness underlay (which overrides every method it
 * is called through).  They are kept out of the translation (ir2c --stub) and every one reports being reached. */
#include "verif_rt.h"
#define NOTREACHED __CPROVER_assert(0, "method outside the vectored harness reached"); __CPROVER_assume(0)
uint32_t ext__ZN7IStream8shutdownE11ShutdownHow(char* a0, uint32_t a1) { NOTREACHED; return 0; }
uint64_t ext__ZN7IStream13readv_mutableEP5ioveci(char* a0, char* a1, uint32_t a2) { NOTREACHED; return 0; }
uint64_t ext__ZN7IStream14writev_mutableEP5ioveci(char* a0, char* a1, uint32_t a2) { NOTREACHED; return 0; }
uint64_t ext__ZNK7IStream7timeoutEv(char* a0) { NOTREACHED; return 0; }
void ext__ZN7IStream7timeoutEm(char* a0, uint64_t a1) { NOTREACHED; }
uint32_t ext__ZN6photon2fs5IFile7fadviseElli(char* a0, uint64_t a1, uint64_t a2, uint32_t a3) { NOTREACHED; return 0; }
uint32_t ext__ZN6photon2fs5IFile15sync_file_rangeEllj(char* a0, uint64_t a1, uint64_t a2, uint32_t a3) { NOTREACHED; return 0; }
uint32_t ext__ZN6photon2fs5IFile9fallocateEill(char* a0, uint32_t a1, uint64_t a2, uint64_t a3) { NOTREACHED; return 0; }
uint32_t ext__ZN6photon2fs5IFile6fiemapEPNS0_6fiemapE(char* a0, char* a1) { NOTREACHED; return 0; }
uint64_t ext__ZN6photon2fs5IFile10do_appendvEPK5ioveciPlS5_(char* a0, char* a1, uint32_t a2, char* a3, char* a4) { NOTREACHED; return 0; }
uint32_t ext__ZN6photon2fs5IFile6vioctlEiP13__va_list_tag(char* a0, uint32_t a1, char* a2) { NOTREACHED; return 0; }
char* ext__ZN6photon2fs5IFile19get_underlay_objectEi(char* a0, uint32_t a1) { NOTREACHED; return 0; }
uint32_t ext__ZN6photon2fs15ForwardFileBaseINS0_5IFileEE5closeEv(char* a0) { NOTREACHED; return 0; }
uint64_t ext__ZN6photon2fs15ForwardFileBaseINS0_5IFileEE4readEPvm(char* a0, char* a1, uint64_t a2) { NOTREACHED; return 0; }
uint64_t ext__ZN6photon2fs15ForwardFileBaseINS0_5IFileEE5readvEPK5ioveci(char* a0, char* a1, uint32_t a2) { NOTREACHED; return 0; }
uint64_t ext__ZN6photon2fs15ForwardFileBaseINS0_5IFileEE13readv_mutableEP5ioveci(char* a0, char* a1, uint32_t a2) { NOTREACHED; return 0; }
uint64_t ext__ZN6photon2fs15ForwardFileBaseINS0_5IFileEE5writeEPKvm(char* a0, char* a1, uint64_t a2) { NOTREACHED; return 0; }
uint64_t ext__ZN6photon2fs15ForwardFileBaseINS0_5IFileEE6writevEPK5ioveci(char* a0, char* a1, uint32_t a2) { NOTREACHED; return 0; }
uint64_t ext__ZN6photon2fs15ForwardFileBaseINS0_5IFileEE14writev_mutableEP5ioveci(char* a0, char* a1, uint32_t a2) { NOTREACHED; return 0; }
char* ext__ZN6photon2fs15ForwardFileBaseINS0_5IFileEE10filesystemEv(char* a0) { NOTREACHED; return 0; }
uint64_t ext__ZN6photon2fs15ForwardFileBaseINS0_5IFileEE5preadEPvml(char* a0, char* a1, uint64_t a2, uint64_t a3) { NOTREACHED; return 0; }
uint64_t ext__ZN6photon2fs15ForwardFileBaseINS0_5IFileEE6preadvEPK5iovecil(char* a0, char* a1, uint32_t a2, uint64_t a3) { NOTREACHED; return 0; }
uint64_t ext__ZN6photon2fs15ForwardFileBaseINS0_5IFileEE14preadv_mutableEP5iovecil(char* a0, char* a1, uint32_t a2, uint64_t a3) { NOTREACHED; return 0; }
uint64_t ext__ZN6photon2fs15ForwardFileBaseINS0_5IFileEE7preadv2EPK5iovecili(char* a0, char* a1, uint32_t a2, uint64_t a3, uint32_t a4) { NOTREACHED; return 0; }
uint64_t ext__ZN6photon2fs15ForwardFileBaseINS0_5IFileEE15preadv2_mutableEP5iovecili(char* a0, char* a1, uint32_t a2, uint64_t a3, uint32_t a4) { NOTREACHED; return 0; }
uint64_t ext__ZN6photon2fs15ForwardFileBaseINS0_5IFileEE6pwriteEPKvml(char* a0, char* a1, uint64_t a2, uint64_t a3) { NOTREACHED; return 0; }
uint64_t ext__ZN6photon2fs15ForwardFileBaseINS0_5IFileEE7pwritevEPK5iovecil(char* a0, char* a1, uint32_t a2, uint64_t a3) { NOTREACHED; return 0; }
uint64_t ext__ZN6photon2fs15ForwardFileBaseINS0_5IFileEE15pwritev_mutableEP5iovecil(char* a0, char* a1, uint32_t a2, uint64_t a3) { NOTREACHED; return 0; }
uint64_t ext__ZN6photon2fs15ForwardFileBaseINS0_5IFileEE8pwritev2EPK5iovecili(char* a0, char* a1, uint32_t a2, uint64_t a3, uint32_t a4) { NOTREACHED; return 0; }
uint64_t ext__ZN6photon2fs15ForwardFileBaseINS0_5IFileEE16pwritev2_mutableEP5iovecili(char* a0, char* a1, uint32_t a2, uint64_t a3, uint32_t a4) { NOTREACHED; return 0; }
uint64_t ext__ZN6photon2fs15ForwardFileBaseINS0_5IFileEE5lseekEli(char* a0, uint64_t a1, uint32_t a2) { NOTREACHED; return 0; }
uint32_t ext__ZN6photon2fs15ForwardFileBaseINS0_5IFileEE5fsyncEv(char* a0) { NOTREACHED; return 0; }
uint32_t ext__ZN6photon2fs15ForwardFileBaseINS0_5IFileEE9fdatasyncEv(char* a0) { NOTREACHED; return 0; }
uint32_t ext__ZN6photon2fs15ForwardFileBaseINS0_5IFileEE6fchmodEj(char* a0, uint32_t a1) { NOTREACHED; return 0; }
uint32_t ext__ZN6photon2fs15ForwardFileBaseINS0_5IFileEE6fchownEjj(char* a0, uint32_t a1, uint32_t a2) { NOTREACHED; return 0; }
uint32_t ext__ZN6photon2fs15ForwardFileBaseINS0_5IFileEE5fstatEP4stat(char* a0, char* a1) { NOTREACHED; return 0; }
uint32_t ext__ZN6photon2fs15ForwardFileBaseINS0_5IFileEE9ftruncateEl(char* a0, uint64_t a1) { NOTREACHED; return 0; }
uint32_t ext__ZN6photon2fs15ForwardFileBaseINS0_5IFileEE7fadviseElli(char* a0, uint64_t a1, uint64_t a2, uint32_t a3) { NOTREACHED; return 0; }
uint32_t ext__ZN6photon2fs15ForwardFileBaseINS0_5IFileEE15sync_file_rangeEllj(char* a0, uint64_t a1, uint64_t a2, uint32_t a3) { NOTREACHED; return 0; }
uint32_t ext__ZN6photon2fs15ForwardFileBaseINS0_5IFileEE9fallocateEill(char* a0, uint32_t a1, uint64_t a2, uint64_t a3) { NOTREACHED; return 0; }
uint32_t ext__ZN6photon2fs15ForwardFileBaseINS0_5IFileEE6fiemapEPNS0_6fiemapE(char* a0, char* a1) { NOTREACHED; return 0; }
uint64_t ext__ZN6photon2fs15ForwardFileBaseINS0_5IFileEE10do_appendvEPK5ioveciPlS7_(char* a0, char* a1, uint32_t a2, char* a3, char* a4) { NOTREACHED; return 0; }
uint32_t ext__ZN6photon2fs15ForwardFileBaseINS0_5IFileEE6vioctlEiP13__va_list_tag(char* a0, uint32_t a1, char* a2) { NOTREACHED; return 0; }
uint64_t ext__ZN6photon2fs18AlignedFileAdaptor6preadvEPK5iovecil(char* a0, char* a1, uint32_t a2, uint64_t a3) { NOTREACHED; return 0; }
uint64_t ext__ZN6photon2fs18AlignedFileAdaptor14preadv_mutableEP5iovecil(char* a0, char* a1, uint32_t a2, uint64_t a3) { NOTREACHED; return 0; }
uint64_t ext__ZN6photon2fs18AlignedFileAdaptor7preadv2EPK5iovecili(char* a0, char* a1, uint32_t a2, uint64_t a3, uint32_t a4) { NOTREACHED; return 0; }
uint64_t ext__ZN6photon2fs18AlignedFileAdaptor7pwritevEPK5iovecil(char* a0, char* a1, uint32_t a2, uint64_t a3) { NOTREACHED; return 0; }
uint64_t ext__ZN6photon2fs18AlignedFileAdaptor15pwritev_mutableEP5iovecil(char* a0, char* a1, uint32_t a2, uint64_t a3) { NOTREACHED; return 0; }
uint64_t ext__ZN6photon2fs18AlignedFileAdaptor8pwritev2EPK5iovecili(char* a0, char* a1, uint32_t a2, uint64_t a3, uint32_t a4) { NOTREACHED; return 0; }
