// Harness-side declarations (C++ harness TUs include this, then the real /repo sources).
#pragma once
#include <stdint.h>
#include <stddef.h>
extern "C" {
void __CPROVER_assume(bool);
void __CPROVER_assert(bool, const char*) __attribute__((nomerge));
uint64_t nondet_u64();
uint32_t nondet_u32();
uint16_t nondet_u16();
uint8_t nondet_u8();
bool nondet_bool();
}
// Vacuity witness: must be reported FAILED by the solver, otherwise the harness
// never reaches this point (unsatisfiable assumptions / truncated unwinding).
#define WITNESS(msg) __CPROVER_assert(0, "WITNESS: " msg)
#define CHECK(c, msg) __CPROVER_assert((c), msg)
#define ASSUME(c) __CPROVER_assume(c)
#define NOINL __attribute__((noinline))
// Typed raw storage: an object of type T that is constructed by placement-new inside the harness and never destroyed
// (no static constructor to run, no destructor at the end of the harness, and the IR keeps T's field structure).
template<class T> union Raw { T v; Raw() {} ~Raw() {} };
#include <new>
