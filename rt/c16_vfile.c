/* C16 (xfile harness): the VirtualFile base-class methods that XFile does not override are referenced by the vtables of the
 * composite files but are not part of the harness (XFile::pread / pwrite go to pio directly).  Reaching one is reported. */
#include "verif_rt.h"
#define NOTREACHED(ret) __CPROVER_assert(0, "VirtualFile base-class method reached (outside the harness)"); __CPROVER_assume(0); return ret
uint64_t ext__ZN6photon2fs11VirtualFile5lseekEli(char* self, uint64_t off, uint32_t whence) { NOTREACHED(0); }
uint64_t ext__ZN6photon2fs11VirtualFile4readEPvm(char* self, char* buf, uint64_t n) { NOTREACHED(0); }
uint64_t ext__ZN6photon2fs11VirtualFile5readvEPK5iovecj(char* self, char* iov, uint32_t n) { NOTREACHED(0); }
uint64_t ext__ZN6photon2fs11VirtualFile5readvEPK5ioveci(char* self, char* iov, uint32_t n) { NOTREACHED(0); }
uint64_t ext__ZN6photon2fs11VirtualFile5writeEPKvm(char* self, char* buf, uint64_t n) { NOTREACHED(0); }
uint64_t ext__ZN6photon2fs11VirtualFile6writevEPK5ioveci(char* self, char* iov, uint32_t n) { NOTREACHED(0); }
uint64_t ext__ZN6photon2fs11VirtualFile5preadEPvml(char* self, char* buf, uint64_t n, uint64_t off) { NOTREACHED(0); }
uint64_t ext__ZN6photon2fs11VirtualFile6pwriteEPKvml(char* self, char* buf, uint64_t n, uint64_t off) { NOTREACHED(0); }
uint64_t ext__ZN6photon2fs11VirtualFile6preadvEPK5iovecil(char* self, char* iov, uint32_t n, uint64_t off) { NOTREACHED(0); }
uint64_t ext__ZN6photon2fs11VirtualFile7pwritevEPK5iovecil(char* self, char* iov, uint32_t n, uint64_t off) { NOTREACHED(0); }
/* IFile / IStream default forwarding methods (preadv_mutable -> preadv, ...): not used by the composite's positional I/O.  They are
 * kept out of the translation (ir2c --stub) because the solver's call resolution, faced with a sub-file chosen by a symbolic index,
 * would otherwise expand each of them - and through their own virtual calls each other - as a possible target of every call. */
uint64_t ext__ZN6photon2fs5IFile14preadv_mutableEP5iovecil(char* self, char* iov, uint32_t n, uint64_t off) { NOTREACHED(0); }
uint64_t ext__ZN6photon2fs5IFile7preadv2EPK5iovecili(char* self, char* iov, uint32_t n, uint64_t off, uint32_t fl) { NOTREACHED(0); }
uint64_t ext__ZN6photon2fs5IFile15preadv2_mutableEP5iovecili(char* self, char* iov, uint32_t n, uint64_t off, uint32_t fl) { NOTREACHED(0); }
uint64_t ext__ZN6photon2fs5IFile15pwritev_mutableEP5iovecil(char* self, char* iov, uint32_t n, uint64_t off) { NOTREACHED(0); }
uint64_t ext__ZN6photon2fs5IFile8pwritev2EPK5iovecili(char* self, char* iov, uint32_t n, uint64_t off, uint32_t fl) { NOTREACHED(0); }
uint64_t ext__ZN6photon2fs5IFile16pwritev2_mutableEP5iovecili(char* self, char* iov, uint32_t n, uint64_t off, uint32_t fl) { NOTREACHED(0); }
uint64_t ext__ZN7IStream13readv_mutableEP5ioveci(char* self, char* iov, uint32_t n) { NOTREACHED(0); }
uint64_t ext__ZN7IStream14writev_mutableEP5ioveci(char* self, char* iov, uint32_t n) { NOTREACHED(0); }
