/* Sequential stand-ins for photon's blocking primitives (single-threaded harnesses): a wait returns at once
 * as if notified, a notification finds no waiter.  The real primitives are the subject of C01-C03. */
#include "verif_rt.h"
unsigned verif_cv_waits, verif_cv_notifies;
uint32_t ext__ZN6photon18condition_variable4waitEPNS_8spinlockENS_7TimeoutE(char* cv, char* l, uint64_t t) { verif_cv_waits++; return 0; }
uint32_t ext__ZN6photon18condition_variable4waitEPNS_5mutexENS_7TimeoutE(char* cv, char* l, uint64_t t) { verif_cv_waits++; return 0; }
uint32_t ext__ZN6photon5waitq10resume_allEi(char* q, uint32_t e) { verif_cv_notifies++; return 0; }
char* ext__ZN6photon5waitq10resume_oneEi(char* q, uint32_t e) { verif_cv_notifies++; return 0; }
