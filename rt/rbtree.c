/* Stand-ins for libstdc++'s out-of-line red-black tree helpers: same node layout
 * (_Rb_tree_node_base {color,parent,left,right}; header: parent=root,left=leftmost,right=rightmost),
 * same in-order / lookup contract, no rebalancing (an unbalanced BST is a valid
 * search tree for every operation std::set/map performs; only complexity differs). */
#include "verif_rt.h"
struct nb { int color; struct nb* parent; struct nb* left; struct nb* right; };
void ext__ZSt29_Rb_tree_insert_and_rebalancebPSt18_Rb_tree_node_baseS0_RS_(_Bool left, char* x_, char* p_, char* h_) {
  struct nb *x = (struct nb*)x_, *p = (struct nb*)p_, *h = (struct nb*)h_;
  x->parent = p; x->left = 0; x->right = 0; x->color = 1; /* 'black': only the header is red, as the decrement's header test requires */
  if (left) { p->left = x; if (p == h) { h->parent = x; h->right = x; } else if (p == h->left) h->left = x; }
  else { p->right = x; if (p == h->right) h->right = x; }
}
static struct nb* inc(struct nb* x) {
  if (x->right) { x = x->right; while (x->left) x = x->left; }
  else { struct nb* y = x->parent; while (x == y->right) { x = y; y = y->parent; } if (x->right != y) x = y; }
  return x;
}
static struct nb* dec(struct nb* x, int is_header) {
  if (is_header) x = x->right;
  else if (x->left) { struct nb* y = x->left; while (y->right) y = y->right; x = y; }
  else { struct nb* y = x->parent; while (x == y->left) { x = y; y = y->parent; } x = y; }
  return x;
}
/* the header is the only node whose colour stays "red" (0) with parent->parent == itself; real nodes get colour 1 below */
char* ext__ZSt18_Rb_tree_incrementPSt18_Rb_tree_node_base(char* x) { return (char*)inc((struct nb*)x); }
char* ext__ZSt18_Rb_tree_incrementPKSt18_Rb_tree_node_base(char* x) { return (char*)inc((struct nb*)x); }
char* ext__ZSt18_Rb_tree_decrementPSt18_Rb_tree_node_base(char* x_) {
  struct nb* x = (struct nb*)x_;
  /* header test as in libstdc++: red node whose grandparent is itself */
  if (x->color == 0 && x->parent != 0 && x->parent->parent == x) return (char*)x->right;
  return (char*)dec(x, 0);
}
char* ext__ZSt18_Rb_tree_decrementPKSt18_Rb_tree_node_base(char* x) { return ext__ZSt18_Rb_tree_decrementPSt18_Rb_tree_node_base(x); }
char* ext__ZSt28_Rb_tree_rebalance_for_erasePSt18_Rb_tree_node_baseRS_(char* z_, char* h_) {
  struct nb *z = (struct nb*)z_, *h = (struct nb*)h_;
  struct nb *y = z, *x = 0;
  if (!y->left) x = y->right; else if (!y->right) x = y->left;
  else { y = y->right; while (y->left) y = y->left; x = y->right; }
  if (y != z) {
    z->left->parent = y; y->left = z->left;
    if (y != z->right) { if (x) x->parent = y->parent; y->parent->left = x; y->right = z->right; z->right->parent = y; }
    if (h->parent == z) h->parent = y; else if (z->parent->left == z) z->parent->left = y; else z->parent->right = y;
    y->parent = z->parent; y = z;
  } else {
    if (x) x->parent = y->parent;
    if (h->parent == z) h->parent = x; else if (z->parent->left == z) z->parent->left = x; else z->parent->right = x;
    if (h->left == z) { if (!z->right) h->left = z->parent; else { struct nb* m = x; while (m->left) m = m->left; h->left = m; } }
    if (h->right == z) { if (!z->left) h->right = z->parent; else { struct nb* m = x; while (m->right) m = m->right; h->right = m; } }
  }
  return (char*)y;
}
