/* libc stand-ins for the generated C (externals are renamed ext_<name> by ir2c) */
#include "verif_rt.h"
uint64_t ext_strlen(char* s) { uint64_t n = 0; while (s[n]) n++; return n; }
uint64_t ext_strnlen(char* s, uint64_t max) { uint64_t n = 0; while (n < max && s[n]) n++; return n; }
uint32_t ext_memcmp(char* a, char* b, uint64_t n) { for (uint64_t i = 0; i < n; i++) { unsigned char x = (unsigned char)a[i], y = (unsigned char)b[i]; if (x != y) return x < y ? (uint32_t)-1 : 1u; } return 0; }
uint32_t ext_bcmp(char* a, char* b, uint64_t n) { for (uint64_t i = 0; i < n; i++) if (a[i] != b[i]) return 1; return 0; }
char* ext_memchr(char* s, uint32_t c, uint64_t n) { for (uint64_t i = 0; i < n; i++) if ((unsigned char)s[i] == (unsigned char)c) return s + i; return 0; }
uint32_t ext_strcmp(char* a, char* b) { uint64_t i = 0; for (;; i++) { unsigned char x = (unsigned char)a[i], y = (unsigned char)b[i]; if (x != y) return x < y ? (uint32_t)-1 : 1u; if (!x) return 0; } }
int verif_errno_v[VERIF_MAX_OS_THREADS];
#ifdef VERIF_SHARED_ERRNO   /* all model threads are photon threads of ONE vCPU (one OS thread): they share errno */
char* ext___errno_location(void) { return (char*)&verif_errno_v[0]; }
#else
char* ext___errno_location(void) { return (char*)&verif_errno_v[verif_os_tid]; }
#endif
char* ext__Znwm(uint64_t n) { char* p = malloc(n); __CPROVER_assume(p != 0); return p; }
char* ext__Znam(uint64_t n) { char* p = malloc(n); __CPROVER_assume(p != 0); return p; }
void ext__ZdlPv(char* p) { free(p); }
void ext__ZdaPv(char* p) { free(p); }
void ext__ZdlPvm(char* p, uint64_t n) { free(p); }
char* ext_malloc(uint64_t n) { char* p = malloc(n); __CPROVER_assume(p != 0); return p; }
char* ext_calloc(uint64_t a, uint64_t b) { char* p = calloc(a, b); __CPROVER_assume(p != 0); return p; }
void ext_free(char* p) { free(p); }
void ext__ZSt17__throw_bad_allocv(void) { __CPROVER_assume(0); }
void ext__ZSt20__throw_length_errorPKc(char* c) { __CPROVER_assume(0); }
void ext__ZSt28__throw_bad_array_new_lengthv(void) { __CPROVER_assume(0); }
void ext__ZSt24__throw_out_of_range_fmtPKcz(char* c) { __CPROVER_assume(0); }
void ext__ZSt19__throw_logic_errorPKc(char* c) { __CPROVER_assume(0); }
void ext__ZSt25__throw_bad_function_callv(void) { __CPROVER_assume(0); }
void ext___cxa_pure_virtual(void) { __CPROVER_assert(0, "pure virtual call"); }
void ext_abort(void) { __CPROVER_assert(0, "abort() reached"); __CPROVER_assume(0); }
#ifdef VERIF_NATIVE
extern int verif_os_tid;
#else
__CPROVER_thread_local int verif_os_tid = 0;
#endif
