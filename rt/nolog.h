// Logging has an empty body in every harness (formatting is not the subject of any property).
// Included by harness TUs before the real sources: alog.h is pulled in first (it is #pragma once),
// then the single macro every LOG_* expands through is replaced.  errno side effects of
// LOG_ERROR_RETURN / LOG_ERRNO_RETURN are kept (they are separate statements of those macros).
#pragma once
#include <photon/common/alog.h>
#undef __LOG__
#define __LOG__(attr, logger, level, first, ...) ((void)0)
