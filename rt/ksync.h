// Contract-level photon synchronisation ("Layer C", DESIGN 2.8 M5): for properties whose subject is a *client* of
// mutex / condition_variable / semaphore (go-style channel, RangeLock wake-up, ObjectCache, RPC engine, WorkPool), the
// primitives themselves (subject of C01-C03) are replaced by their documented contract.  The harness includes only
// <photon/thread/thread.h>; the out-of-line primitives stay external calls and ir2c routes them here (KSYNC_IR2C in
// harness/C01/jobs.py).  State lives in the real objects where possible (mutex::owner, semaphore::m_count) so client code that
// peeks at them keeps working.
//   mutex:  exclusive; lock() blocks until handed the mutex (FIFO hand-off at unlock) or its deadline passes (-1/ETIMEDOUT)
//   cv:     wait(m) releases m and enqueues atomically; notify_one wakes the earliest waiter, notify_all all of them; a woken or
//           timed-out waiter returns only after re-acquiring m; returns 0 if notified, -1/ETIMEDOUT if its deadline passed
//   sem:    wait(n) takes n tokens or blocks; signal(n) adds and serves waiters in FIFO order while the count covers the head
//   yield/usleep: scheduling points (a sleeper with a finite deadline may be timed out at any moment)
#pragma once
#include <errno.h>
#ifndef KN
#define KN 3
#endif
#define protected public
#define private public
#include <photon/thread/thread.h>
#undef protected
#undef private
namespace photon {
enum { KW_NONE = 0, KW_MUTEX, KW_CV, KW_SEM, KW_SLEEP, KW_SPIN, KW_RELOCK };
enum { KF_NONE = 0, KF_NOTIFIED, KF_TIMEDOUT, KF_INTR };
static uint8_t K_kind[KN], K_flag[KN]; static int K_err[KN]; static bool K_finite[KN], K_lock_finite[KN];
static uint64_t K_deadline[KN]; static void* K_obj[KN]; static mutex* K_mtx[KN]; static spinlock* K_spin[KN]; static uint64_t K_need[KN]; static unsigned K_seq[KN], K_seqno;
// KN <= 4: every loop over the model threads is unrolled by macro (no unwinding needed for the contract layer itself)
#if KN == 1
#define K_EACH(M) M(0)
#elif KN == 2
#define K_EACH(M) M(0) M(1)
#elif KN == 3
#define K_EACH(M) M(0) M(1) M(2)
#elif KN == 4
#define K_EACH(M) M(0) M(1) M(2) M(3)
#else
#error "KN must be 1..4"
#endif
static inline thread* K_tid(int i) { return (thread*)(uintptr_t)(0x1000 + 16 * i); }   // opaque, never dereferenced
static inline int K_earliest(int kind, void* obj)
{
    int best = -1;
#define K_M(i) if (K_kind[i] == kind && K_obj[i] == obj && (best < 0 || K_seq[i] < K_seq[best])) best = i;
    K_EACH(K_M)
#undef K_M
    return best;
}
static inline void K_hand_mutex(mutex* m)             // the mutex is being released: hand it to the earliest waiter, else free it
{
    int w = K_earliest(KW_MUTEX, m);
    if (w >= 0) { m->owner.store(K_tid(w)); K_kind[w] = KW_NONE; }
    else m->owner.store(nullptr);
}
static inline void K_want_mutex(int i, mutex* m)      // thread i (woken from a cv wait) must own m before it returns from wait()
{
    // A woken waiter is merely runnable: it competes for the mutex when it next runs (it is NOT queued on the mutex at the moment it is
    // notified - the real do_mutex_unlock only hands over to threads already sleeping in the mutex queue), so a locker that arrives
    // before the woken waiter runs can take the mutex first.  The waiter stays "blocked" while the mutex is held.
    K_kind[i] = KW_RELOCK; K_mtx[i] = m;
}
}
namespace photon { volatile uint64_t now = 1000; __thread thread* CURRENT; }
extern "C" {
using namespace photon;
void verif_set_tid(uint32_t);
uint32_t verif_get_tid();
#define K_ME ((int)verif_get_tid())

NOINL void K_init()
{
    photon::now = 1000;
#define K_M(i) { verif_set_tid(i); CURRENT = K_tid(i); }
    K_EACH(K_M)
#undef K_M
    verif_set_tid(0);
}
// a thread that only needs a spinlock back (after a cv.wait(spinlock)) is runnable as soon as the spinlock is free; it takes it when picked
NOINL uint32_t K_is_blocked(uint32_t i) { return K_kind[i] != KW_NONE && !(K_kind[i] == KW_SPIN && !K_spin[i]->locked()) && !(K_kind[i] == KW_RELOCK && K_mtx[i]->owner.load() == nullptr); }
NOINL void K_try_unblock(uint32_t i)
{
    if (K_kind[i] == KW_SPIN && !K_spin[i]->locked()) { K_spin[i]->lock(); K_kind[i] = KW_NONE; }
    if (K_kind[i] == KW_RELOCK && K_mtx[i]->owner.load() == nullptr) { K_mtx[i]->owner.store(K_tid(i)); K_kind[i] = KW_NONE; }
}
NOINL uint32_t K_can_timeout(uint32_t i) { return K_kind[i] != KW_NONE && K_kind[i] != KW_SPIN && K_kind[i] != KW_RELOCK && K_finite[i]; }
NOINL uint32_t K_timeout_event(uint32_t i)
{
    if (K_kind[i] == KW_NONE || !K_finite[i]) return 0;
    if (K_kind[i] == KW_SPIN || K_kind[i] == KW_RELOCK) return 0;       // already woken (only waiting for its lock): its sleep is over, no deadline any more
    K_flag[i] = KF_TIMEDOUT;
    if (photon::now < K_deadline[i]) photon::now = K_deadline[i];       // a deadline only expires once the clock has reached it
    if (K_kind[i] == KW_CV) {                          // must still re-acquire its lock
        if (K_mtx[i]) K_want_mutex(i, K_mtx[i]); else K_kind[i] = KW_SPIN;
        return 1;                                      // (the lock itself is taken when the thread is next picked: K_try_unblock)
    }
    K_kind[i] = KW_NONE; return 1;
}
// the runtime clock is monotone and may advance by any amount between two execution slices
NOINL void K_tick() { photon::now = photon::now + nondet_u8(); }
// ---- mutex
// begin functions return non-zero iff the caller blocks (ir2c --blockingc): an uncontended operation is not a scheduling point
NOINL uint32_t K_mutex_lock_begin(mutex* m, uint64_t expiration)
{
    int me = K_ME; K_flag[me] = KF_NONE;
    if (m->owner.load() == nullptr) { m->owner.store(K_tid(me)); return 0; }
    CHECK(m->owner.load() != K_tid(me), "K: a plain mutex is not locked twice by its owner");
    if (expiration == 0 || expiration <= photon::now) { K_flag[me] = KF_TIMEDOUT; return 0; }
    K_kind[me] = KW_MUTEX; K_obj[me] = m; K_seq[me] = ++K_seqno; K_finite[me] = (expiration != (uint64_t)-1); K_deadline[me] = expiration;
    return 1;
}
NOINL int K_mutex_lock_end()
{
    int me = K_ME;
    if (K_flag[me] == KF_TIMEDOUT) { errno = ETIMEDOUT; return -1; }
    return 0;
}
NOINL int K_mutex_try_lock(mutex* m)
{
    if (m->owner.load() == nullptr) { m->owner.store(K_tid(K_ME)); return 0; }
    return -1;
}
NOINL void K_mutex_unlock(mutex* m)
{
    CHECK(m->owner.load() == K_tid(K_ME), "K: mutex unlocked by its owner");
    K_hand_mutex(m);
}
// ---- condition variable (with a mutex)
NOINL uint32_t K_cv_wait_begin(condition_variable* c, mutex* m, uint64_t expiration)
{
    int me = K_ME;
    CHECK(m->owner.load() == K_tid(me), "K: condition_variable::wait called with the mutex held");
    K_flag[me] = KF_NONE; K_kind[me] = KW_CV; K_obj[me] = c; K_mtx[me] = m; K_seq[me] = ++K_seqno;
    K_finite[me] = (expiration != (uint64_t)-1); K_deadline[me] = expiration;
    if (expiration == 0 || expiration <= photon::now) K_finite[me] = true;
    K_hand_mutex(m);                                   // release-and-wait is one step
    return 1;
}
NOINL int K_cv_wait_end()
{
    int me = K_ME;
    if (K_flag[me] == KF_TIMEDOUT) { errno = ETIMEDOUT; return -1; }
    if (K_flag[me] == KF_INTR) { errno = K_err[me]; return -1; }
    return 0;
}
// ---- thread_interrupt(th, err): cuts a blocked thread's wait short with the interrupter's errno (a cv waiter still re-acquires its lock).
// An interrupt aimed at a thread that is not blocked is dropped here (the real runtime stores it for a yielded thread: outside this contract).
NOINL void K_thread_interrupt(thread* th, int err)
{
#define K_M(i) if (th == K_tid(i)) { \
        if (K_kind[i] == KW_CV) { K_flag[i] = KF_INTR; K_err[i] = err; if (K_mtx[i]) K_want_mutex(i, K_mtx[i]); else K_kind[i] = KW_SPIN; } \
        else if (K_kind[i] == KW_SEM || K_kind[i] == KW_SLEEP) { K_flag[i] = KF_INTR; K_err[i] = err; K_kind[i] = KW_NONE; } \
    }
    K_EACH(K_M)
#undef K_M
}
NOINL thread* K_cv_notify_one(waitq* c, int)
{
    int w = K_earliest(KW_CV, c);
    if (w < 0) return nullptr;
    K_flag[w] = KF_NOTIFIED;
    if (K_mtx[w]) K_want_mutex(w, K_mtx[w]); else K_kind[w] = KW_SPIN;
    return K_tid(w);
}
// ---- condition variable with a spinlock
NOINL uint32_t K_cv_wait_spin_begin(condition_variable* c, spinlock* l, uint64_t expiration)
{
    int me = K_ME;
    CHECK(l->locked(), "K: condition_variable::wait called with the spinlock held");
    K_flag[me] = KF_NONE; K_kind[me] = KW_CV; K_obj[me] = c; K_mtx[me] = nullptr; K_spin[me] = l; K_seq[me] = ++K_seqno;
    K_finite[me] = (expiration != (uint64_t)-1); K_deadline[me] = expiration;
    if (expiration == 0 || expiration <= photon::now) K_finite[me] = true;
    l->unlock();                                       // release-and-wait is one step
    return 1;
}
NOINL int K_cv_notify_all(waitq* c, int e)
{
    int n = 0;
#define K_M(k) if (n == k && K_cv_notify_one(c, e)) n++;
    K_EACH(K_M)
#undef K_M
    return n;
}
// ---- semaphore
NOINL uint32_t K_sem_wait_begin(semaphore* s, uint64_t count, uint64_t expiration)
{
    int me = K_ME; K_flag[me] = KF_NONE;
    if (count == 0) return 0;
    uint64_t c = s->m_count.load();
    if (c >= count && K_earliest(KW_SEM, s) < 0) { s->m_count.store(c - count); return 0; }
    if (expiration == 0 || expiration <= photon::now) { K_flag[me] = KF_TIMEDOUT; return 0; }
    K_kind[me] = KW_SEM; K_obj[me] = s; K_need[me] = count; K_seq[me] = ++K_seqno; K_finite[me] = (expiration != (uint64_t)-1); K_deadline[me] = expiration;
    return 1;
}
NOINL int K_sem_wait_end()
{
    int me = K_ME;
    if (K_flag[me] == KF_TIMEDOUT) { errno = ETIMEDOUT; return -1; }
    if (K_flag[me] == KF_INTR) { errno = K_err[me]; return -1; }
    return 0;
}
// semaphore::signal() is inline in thread.h: it adds to m_count itself and then calls try_resume(total)
NOINL void K_sem_try_resume(semaphore* s, uint64_t)
{
    uint64_t c = s->m_count.load(); bool go = true;
#define K_M(k) if (go) { int w = K_earliest(KW_SEM, s); if (w < 0 || K_need[w] > c) go = false; else { c -= K_need[w]; K_kind[w] = KW_NONE; K_flag[w] = KF_NOTIFIED; } }
    K_EACH(K_M)
#undef K_M
    s->m_count.store(c);
}
// ---- yield / sleep
NOINL uint32_t K_yield_begin() { return 1; }
NOINL int K_yield_end() { return 0; }
NOINL uint32_t K_usleep_begin(uint64_t expiration)
{
    int me = K_ME; K_flag[me] = KF_NONE;
    if (expiration == 0 || expiration <= photon::now) return 1;      // behaves like a yield
    K_kind[me] = KW_SLEEP; K_obj[me] = nullptr; K_finite[me] = (expiration != (uint64_t)-1); K_deadline[me] = expiration;
    return 1;
}
NOINL int K_usleep_end() { return 0; }
}
