/* C17 (cache store data path, sequential harness): photon primitives that fs/cache/store.cpp refers to.
 * - photon::mutex::lock / unlock (ICacheStore::open_lock_, taken in open_src_file): single thread, never contended: no-ops.
 * - thread pool / thread migration / ICachePool::store_release: only on the asynchronous-refill path (pool_ != nullptr) and in
 *   ICacheStore::release(); the harness runs with pool_ == nullptr, so each of them reports being reached. */
#include "verif_rt.h"
#define NOTREACHED __CPROVER_assert(0, "C17: thread-pool / pool path reached although pool_ == nullptr"); __CPROVER_assume(0)
unsigned verif_c17_mutex_locks;
uint32_t ext__ZN6photon5mutex4lockENS_7TimeoutE(char* m, uint64_t timeout) { verif_c17_mutex_locks++; return 0; }
void ext__ZN6photon5mutex6unlockEv(char* m) { }
char* ext__ZN6photon14ThreadPoolBase16thread_create_exEPFPvS1_ES1_b(char* pool, char* start, char* arg, _Bool joinable) { NOTREACHED; return 0; }
uint32_t ext__ZN6photon14thread_migrateEPNS_6threadEPNS_9vcpu_baseE(char* th, char* vcpu) { NOTREACHED; return 0; }
uint32_t ext__ZN6photon2fs10ICachePool13store_releaseEPNS0_11ICacheStoreEb(char* pool, char* store, _Bool detach) { NOTREACHED; return 0; }

/* Virtual methods / callbacks that are not on the single-reader inline-refill path.  They are kept out of the translation
 * (ir2c --stub, see harness/C17/jobs.py) because every address-taken function is a candidate whenever the solver resolves an
 * indirect call whose target it cannot constant-propagate (the IOVector allocator callbacks after an update of the IOVector at a
 * symbolic position); each of them reports being reached. */
#define NOTONPATH __CPROVER_assert(0, "C17: method outside the single-reader inline-refill path reached"); __CPROVER_assume(0)
char* ext__ZN6photon2fs11ICacheStore12async_refillEPv(char* ctx) { NOTONPATH; return 0; }
void ext__ZN7SrcFileD0Ev(char* self) { NOTONPATH; }
void ext__ZN5StoreD0Ev(char* self) { NOTONPATH; }
void ext__ZN6photon2fs11ICacheStoreD2Ev(char* self) { NOTONPATH; }
void ext__ZN6photon2fs11ICacheStoreD0Ev(char* self) { NOTONPATH; }
uint64_t ext__ZN7IStream13readv_mutableEP5ioveci(char* self, char* iov, uint32_t n) { NOTONPATH; return 0; }
uint64_t ext__ZN7IStream14writev_mutableEP5ioveci(char* self, char* iov, uint32_t n) { NOTONPATH; return 0; }
/* ICacheStore's default do_preadv2_mutable / do_pwritev2 / do_pwritev2_mutable forward to each other; the harness store overrides
 * do_preadv2_mutable and do_pwritev2 (the defaults would recurse forever, as for any concrete store) */
uint64_t ext__ZN6photon2fs11ICacheStore18do_preadv2_mutableEP5iovecili(char* self, char* iov, uint32_t n, uint64_t off, uint32_t fl) { NOTONPATH; return 0; }
uint64_t ext__ZN6photon2fs11ICacheStore11do_pwritev2EPK5iovecili(char* self, char* iov, uint32_t n, uint64_t off, uint32_t fl) { NOTONPATH; return 0; }
uint64_t ext__ZN6photon2fs11ICacheStore19do_pwritev2_mutableEP5iovecili(char* self, char* iov, uint32_t n, uint64_t off, uint32_t fl) { NOTONPATH; return 0; }
