/* C17 (cache store data path, sequential harness): photon primitives that fs/cache/store.cpp refers to.
 * - photon::mutex::lock / unlock (ICacheStore::open_lock_, taken in open_src_file): single thread, never contended: no-ops.
 * - thread pool / thread migration / ICachePool::store_release: only on the asynchronous-refill path (pool_ != nullptr) and in
 *   ICacheStore::release(); the harness runs with pool_ == nullptr, so each of them reports being reached. */
#include "verif_rt.h"
#define NOTREACHED __CPROVER_assert(0, "C17: thread-pool / pool path reached although pool_ == nullptr"); __CPROVER_assume(0)
unsigned verif_c17_mutex_locks;
uint32_t ext__ZN6photon5mutex4lockENS_7TimeoutE(char* m, uint64_t timeout) { verif_c17_mutex_locks++; return 0; }
void ext__ZN6photon5mutex6unlockEv(char* m) { }
char* ext__ZN6photon14ThreadPoolBase16thread_create_exEPFPvS1_ES1_b(char* pool, char* start, char* arg, _Bool joinable) { NOTREACHED; return 0; }
uint32_t ext__ZN6photon14thread_migrateEPNS_6threadEPNS_9vcpu_baseE(char* th, char* vcpu) { NOTREACHED; return 0; }
uint32_t ext__ZN6photon2fs10ICachePool13store_releaseEPNS0_11ICacheStoreEb(char* pool, char* store, _Bool detach) { NOTREACHED; return 0; }

/* Virtual methods / callbacks that are not on the single-reader inline-refill path.  They are kept out of the translation
 * (ir2c --stub, see harness/C17/jobs.py) because every address-taken function is a candidate whenever the solver resolves an
 * indirect call whose target it cannot constant-propagate (the IOVector allocator callbacks after an update of the IOVector at a
 * symbolic position); each of them reports being reached. */
#define NOTONPATH __CPROVER_assert(0, "C17: method outside the single-reader inline-refill path reached"); __CPROVER_assume(0)
char* ext__ZN6photon2fs11ICacheStore12async_refillEPv(char* ctx) { NOTONPATH; return 0; }
void ext__ZN7SrcFileD0Ev(char* self) { NOTONPATH; }
void ext__ZN5StoreD0Ev(char* self) { NOTONPATH; }
void ext__ZN6photon2fs11ICacheStoreD2Ev(char* self) { NOTONPATH; }
void ext__ZN6photon2fs11ICacheStoreD0Ev(char* self) { NOTONPATH; }
uint64_t ext__ZN7IStream13readv_mutableEP5ioveci(char* self, char* iov, uint32_t n) { NOTONPATH; return 0; }
uint64_t ext__ZN7IStream14writev_mutableEP5ioveci(char* self, char* iov, uint32_t n) { NOTONPATH; return 0; }
/* ICacheStore's default do_preadv2_mutable / do_pwritev2 / do_pwritev2_mutable forward to each other; the harness store overrides
 * do_preadv2_mutable and do_pwritev2 (the defaults would recurse forever, as for any concrete store) */
uint64_t ext__ZN6photon2fs11ICacheStore18do_preadv2_mutableEP5iovecili(char* self, char* iov, uint32_t n, uint64_t off, uint32_t fl) { NOTONPATH; return 0; }
uint64_t ext__ZN6photon2fs11ICacheStore11do_pwritev2EPK5iovecili(char* self, char* iov, uint32_t n, uint64_t off, uint32_t fl) { NOTONPATH; return 0; }
uint64_t ext__ZN6photon2fs11ICacheStore19do_pwritev2_mutableEP5iovecili(char* self, char* iov, uint32_t n, uint64_t off, uint32_t fl) { NOTONPATH; return 0; }

/* memcpy with a length that is symbolic for the translator (ir2c --memcpy-n verif_c17_memcpy_n).  rt/mem.c copies byte by byte
 * through the raw pointers.  The copies store.cpp / iovector.h make with such lengths are
 * (a) iovec arrays (length = 16 * iovcnt: IOVector(iov, iovcnt), SmartCloneIOV): copied element-wise as {pointer, length} pairs,
 *     which keeps the pointers whole for the solver;
 * (b) payload bytes (iovector_view::memcpy_iov): at most 12 in this harness, and always between two of the payload buffers the
 *     harness hands out (the caller's segments, the refill buffer), which it registers in verif_c17_buf[].  The copy is written per
 *     registered buffer object and CHECKs that both ends are registered buffers: a store through the raw pointer is encoded by the
 *     solver as a possible update of every object in the pointer's points-to set, which for an iov_base read back from an IOVector
 *     includes the IOVectors themselves.
 * Either way exactly n bytes are copied from s to d. */
struct c17_iov { char* base; uint64_t len; };
#define C17_NBUF 8
char* verif_c17_buf[C17_NBUF];
static char* c17_base_of(char* p) {
  for (int k = 0; k < C17_NBUF; k++) if (verif_c17_buf[k] != 0 && __CPROVER_same_object(p, verif_c17_buf[k])) return verif_c17_buf[k];
  return 0;
}
void verif_c17_memcpy_n(char* d, char* s, uint64_t n) {
  if (n >= 16 && (n & 15) == 0) {
    __CPROVER_assert(n <= 64, "C17 harness bound: an iovec array copy has at most 4 entries");
    __CPROVER_assume(n <= 64);
    ((struct c17_iov*)d)[0] = ((struct c17_iov*)s)[0];
    if (n >= 32) ((struct c17_iov*)d)[1] = ((struct c17_iov*)s)[1];
    if (n >= 48) ((struct c17_iov*)d)[2] = ((struct c17_iov*)s)[2];
    if (n >= 64) ((struct c17_iov*)d)[3] = ((struct c17_iov*)s)[3];
    return;
  }
  if (n == 0) return;
  __CPROVER_assert(n <= 12, "C17 harness bound: a payload copy has at most 12 bytes");
  __CPROVER_assume(n <= 12);
  char *db = c17_base_of(d), *sb = c17_base_of(s);
  __CPROVER_assert(db != 0 && sb != 0, "C17: a payload copy runs between two payload buffers of the request (caller's segments, refill buffer)");
  __CPROVER_assume(db != 0 && sb != 0);
  uint64_t doff = __CPROVER_POINTER_OFFSET(d), soff = __CPROVER_POINTER_OFFSET(s);
  __CPROVER_assert(doff + n <= __CPROVER_OBJECT_SIZE(db) && soff + n <= __CPROVER_OBJECT_SIZE(sb), "C17: a payload copy stays inside both buffers");
  for (uint64_t i = 0; i < 12; i++) { if (i >= n) break; db[doff + i] = sb[soff + i]; }
}
