/* Concrete runtime: runs a harness entry on input vectors read from a file.
 * Used (a) for translation validation: the gcc build of the IR-derived C and the
 * g++ build of the same harness over the real sources must print identical logs;
 * (b) to replay a solver counterexample outside the solver.
 * One forked child per vector (harness globals start fresh each time). */
#include <stdio.h>
#include <stdint.h>
#include <stdlib.h>
#include <string.h>
#include <setjmp.h>
#include <unistd.h>
#include <sys/wait.h>

static uint64_t vec[4096]; static size_t nvec, pos;
static jmp_buf jb;
static int nfail;
int verif_os_tid;
static uint64_t nx(void) { return pos < nvec ? vec[pos++] : 0; }
uint64_t nondet_u64(void) { return nx(); }
uint64_t nondet_raw_u64(void) { return nx(); }
uint32_t nondet_u32(void) { return (uint32_t)nx(); }
uint16_t nondet_u16(void) { return (uint16_t)nx(); }
uint8_t nondet_u8(void) { return (uint8_t)nx(); }
_Bool nondet_bool(void) { return (_Bool)(nx() & 1); }
void verif_native_assume(_Bool c) { if (!c) longjmp(jb, 1); }
void verif_native_assert(_Bool c, const char* m) {
  printf("A %d %s\n", (int)c, m);
  if (!c && strncmp(m, "WITNESS", 7) != 0) nfail++;
}
void __CPROVER_assume(_Bool c) { verif_native_assume(c); }
void __CPROVER_assert(_Bool c, const char* m) { verif_native_assert(c, m); }
void verif_out(uint64_t v) { printf("O %llu\n", (unsigned long long)v); }
__attribute__((weak)) void verif_set_tid(uint32_t t) { verif_os_tid = (int)t; }

#ifdef __cplusplus
extern "C"
#endif
void VERIF_ENTRY(void);

int main(int argc, char** argv) {
  if (argc < 2) return 2;
  FILE* f = fopen(argv[1], "r"); if (!f) return 2;
  char* line = 0; size_t cap = 0; int k = 0, anyfail = 0;
  while (getline(&line, &cap, f) > 0) {
    nvec = 0; pos = 0;
    char* p = line;
    for (;;) { char* e; unsigned long long v = strtoull(p, &e, 0); if (e == p) break; if (nvec < 4096) vec[nvec++] = v; p = e; }
    fflush(stdout);
    pid_t pid = fork();
    if (pid == 0) {
      printf("V %d\n", k);
      if (setjmp(jb) == 0) { VERIF_ENTRY(); printf("END fails=%d\n", nfail); }
      else printf("SKIP\n");
      fflush(stdout); _exit(nfail ? 1 : 0);
    }
    int st = 0; waitpid(pid, &st, 0);
    if (WIFSIGNALED(st)) { printf("SIGNAL %d\n", WTERMSIG(st)); anyfail = 1; }
    else if (WEXITSTATUS(st)) anyfail = 1;
    k++;
  }
  return anyfail;
}
