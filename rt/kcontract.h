// Kernel contract K (DESIGN 2.5): the narrow scheduler interface every photon synchronisation primitive is built on,
// written against the REAL photon::thread / thread_list / spinlock types, so the real primitives above it still read
// and write th->lock, th->waitq, th->error_number, th->state, th->semaphore_count, q.th ... directly.
// Include after "thread/thread.cpp", inside no namespace.  ir2c routes the real static functions
//   thread_usleep_defer / thread_usleep / thread_yield          -> K_*_begin / K_*_end   (two-phase blocking calls)
//   prelocked_thread_interrupt                                   -> K_prelocked_interrupt
// Time is abstracted: a sleeper with a finite deadline may be timed out by the scheduler at any moment
// (K_timeout_event), one with an infinite deadline never.
#pragma once
#ifndef KN
#define KN 3
#endif
#if KN == 1
#define K_EACH(M) M(0)
#elif KN == 2
#define K_EACH(M) M(0) M(1)
#elif KN == 3
#define K_EACH(M) M(0) M(1) M(2)
#elif KN == 4
#define K_EACH(M) M(0) M(1) M(2) M(3)
#else
#error "KN must be 1..4"
#endif
namespace photon {
// separate objects, not an array: thread pointers travel through queue links; a pointer into ONE array object has a symbolic offset and every
// access through it becomes a byte-level operation over all thread objects
static Raw<thread> K_th0, K_th1, K_th2, K_th3;
static bool K_blocked[KN];     // sleeping in K (not runnable)
static bool K_finite[KN];      // its deadline is finite (the timeout event is enabled)
static bool K_timedout[KN];    // ghost: the last wake-up of this thread was the timeout event
static unsigned K_sleeps[KN], K_wakes[KN];
static inline thread* K_thread(int i) { return i == 0 ? &K_th0.v : i == 1 ? &K_th1.v : i == 2 ? &K_th2.v : &K_th3.v; }
static inline int K_index(thread* t)
{
#define K_M(i) if (t == K_thread(i)) return i;
    K_EACH(K_M)      // loop-free: the contract layer adds nothing to the unwinding bound
#undef K_M
    return -1;
}
}
extern "C" {
void verif_set_tid(uint32_t);
uint32_t verif_get_tid();
using namespace photon;

NOINL void K_init()
{
    photon::now = 1000;
#define K_M(i) { thread* t = new (&K_th##i.v) thread; t->state = states::READY; verif_set_tid(i); CURRENT = t; }   // every model thread is the current thread of its own (model) OS thread / vCPU
    K_EACH(K_M)
#undef K_M
    verif_set_tid(0);
}
// ---- thread_usleep_defer(timeout, waitq, defer, arg): enqueue + sleep, then run the deferred action ("after the switch")
NOINL void K_usleep_defer_begin(uint64_t expiration, thread_list* waitq, void (*defer)(void*), void* arg)
{
    thread* th = CURRENT; int me = (int)verif_get_tid();
    {
        spinlock* wl = waitq ? &waitq->lock : nullptr;
        if (wl) wl->lock();
        th->lock.lock();
        th->state = states::SLEEPING;
        if (waitq) { waitq->push_back(th); th->waitq = waitq; }
        th->ts_wakeup = expiration;
        th->lock.unlock();
        if (wl) wl->unlock();
    }
    K_blocked[me] = true; K_finite[me] = (expiration != (uint64_t)-1); K_timedout[me] = false; K_sleeps[me]++;
    if (defer) defer(arg);
}
NOINL int K_usleep_end()
{
    thread* th = CURRENT;
    th->state = states::RUNNING;
    return th->set_error_number();
}
NOINL void K_usleep_begin(uint64_t expiration, thread_list* waitq) { K_usleep_defer_begin(expiration, waitq, nullptr, nullptr); }
NOINL void K_usleep_public_begin(uint64_t expiration) { K_usleep_defer_begin(expiration, nullptr, nullptr, nullptr); }
// ---- thread_yield(): clears the pending reason, lets others run, returns a reason delivered meanwhile
NOINL void K_yield_begin() { thread* th = CURRENT; th->error_number = 0; th->state = states::READY; }
NOINL int K_yield_end() { thread* th = CURRENT; th->state = states::RUNNING; return th->error_number; }
// ---- prelocked_thread_interrupt(th, err): caller holds th->lock and th is SLEEPING
NOINL void K_prelocked_interrupt(thread* th, int error_number)
{
    int i = K_index(th);
    CHECK(i >= 0, "K: interrupt target is a model thread");
    CHECK(th->state == states::SLEEPING, "K: prelocked_thread_interrupt precondition: target is SLEEPING");
    CHECK(th->lock.locked(), "K: prelocked_thread_interrupt precondition: target's lock is held");
    th->error_number = error_number;
    th->dequeue_ready_atomic();          // real: unlink from its wait queue under the queue lock, state = READY
    K_blocked[i] = false; K_wakes[i]++;
}
// ---- scheduler-side: deadline of sleeper i expires (mirrors resume_threads: try th->lock, re-check SLEEPING, dequeue, reason stays 0)
NOINL uint32_t K_timeout_event(uint32_t i)
{
    if (!K_blocked[i] || !K_finite[i]) return 0;
    thread* th = K_thread(i);
    if (th->lock.try_lock() != 0) return 0;
    bool fired = false;
    if (th->state == states::SLEEPING) {
        th->dequeue_ready_atomic(); K_blocked[i] = false; K_timedout[i] = true; K_wakes[i]++; fired = true;
        if (photon::now < th->ts_wakeup) photon::now = th->ts_wakeup;      // a deadline only expires once the clock has reached it
    }
    th->lock.unlock();
    return fired;
}
// the runtime clock is monotone and may advance by any amount between two execution slices (a deadline that has passed fires at a later scheduling round)
NOINL void K_tick() { photon::now = photon::now + nondet_u8(); }
NOINL uint32_t K_is_blocked(uint32_t i) { return K_blocked[i]; }
NOINL void K_try_unblock(uint32_t i) { }
NOINL uint32_t K_can_timeout(uint32_t i) { return K_blocked[i] && K_finite[i]; }
}
