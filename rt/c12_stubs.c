/* C12: IOAlloc::default_allocator / default_deallocator (malloc/free of a symbolic size) are never to be reached in the C12
 * harnesses: the vector handed to deserialize carries the harness allocator, and the vectors embedded in SerializerIOV and in
 * sorted_map::Iterator never allocate (push_back(ptr, len) only / a single element never takes the copying path).  They are
 * address-taken (IOAlloc's default constructor), so the indirect calls list them as candidates; reaching one is an assertion
 * failure, not a silent assumption. */
#include "verif_rt.h"
uint32_t ext__ZN7IOAlloc17default_allocatorEPvNS_9RangeSizeEPS0_(char* obj, uint64_t range, char* out)
{
    __CPROVER_assert(0, "IOAlloc::default_allocator reached (harness expects the supplied allocator only)");
    __CPROVER_assume(0);
    return (uint32_t)-1;
}
uint32_t ext__ZN7IOAlloc19default_deallocatorEPvS0_(char* obj, char* p)
{
    __CPROVER_assert(0, "IOAlloc::default_deallocator reached (harness expects the supplied allocator only)");
    __CPROVER_assume(0);
    return 0;
}
