/* C10 (epoll harness): std::vector<InFlightEvent>::_M_default_append is the growth path of `_inflight_events.resize()` in
 * EventEngineEPoll::add_interest.  The harness gives the engine a descriptor table that already covers every descriptor it uses
 * (a static typed array), so growing is not part of any step; it is kept out of the translation (ir2c --stub) because the solver's
 * resolution of the virtual rm_interest/add_interest calls would otherwise expand it at every call site.  Reaching it is reported. */
#include "verif_rt.h"
void ext__ZNSt6vectorIN6photon13InFlightEventESaIS1_EE17_M_default_appendEm(char* self, uint64_t n)
{
    __CPROVER_assert(0, "descriptor table growth reached (outside the harness: the table covers every descriptor in use)");
    __CPROVER_assume(0);
}
