/* posix_memalign stand-in: one static, sufficiently aligned arena per call site (constant sizes only) */
#include "verif_rt.h"
static _Alignas(64) char verif_arena[4][1024]; static int verif_arena_n;
uint32_t ext_posix_memalign(char* out, uint64_t align, uint64_t size) {
  __CPROVER_assert(size <= 1024 && verif_arena_n < 4, "posix_memalign stand-in: arena large enough");
  *(char**)out = verif_arena[verif_arena_n++]; return 0;
}
