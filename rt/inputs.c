/* Symbolic inputs with a recorder, so a counterexample trace lists them in call
 * order (verif_inputs[i]) and the native replay can feed the same values back. */
#include "verif_rt.h"
#ifndef VERIF_NATIVE
#ifndef VERIF_MAX_INPUTS
#define VERIF_MAX_INPUTS 96
#endif
uint64_t verif_inputs[VERIF_MAX_INPUTS];
unsigned verif_nin;
uint64_t nondet_raw_u64(void);
static uint64_t rec(uint64_t v) { if (verif_nin < VERIF_MAX_INPUTS) verif_inputs[verif_nin] = v; verif_nin++; return v; }
uint64_t nondet_u64(void) { return rec(nondet_raw_u64()); }
uint32_t nondet_u32(void) { return (uint32_t)rec(nondet_raw_u64() & 0xffffffffu); }
uint16_t nondet_u16(void) { return (uint16_t)rec(nondet_raw_u64() & 0xffffu); }
uint8_t nondet_u8(void) { return (uint8_t)rec(nondet_raw_u64() & 0xffu); }
_Bool nondet_bool(void) { return (_Bool)rec(nondet_raw_u64() & 1u); }
#endif
