/* C19: photon::Timer's thread is not started; these are referenced (address taken / destructor) but never executed */
#include "verif_rt.h"
char* ext__ZN6photon5Timer5_stubEPv(char* a) { __CPROVER_assert(0, "Timer::_stub is never run in this harness"); return 0; }
char* ext__ZN6photon11thread_joinEPNS_11join_handleE(char* jh) { return 0; }
