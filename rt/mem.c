#include "verif_rt.h"
void verif_memcpy_n(char* d, char* s, uint64_t n){ for (uint64_t i = 0; i < n; i++) d[i] = s[i]; }
void verif_memmove_n(char* d, char* s, uint64_t n){ if ((uintptr_t)d <= (uintptr_t)s) { for (uint64_t i = 0; i < n; i++) d[i] = s[i]; } else { for (uint64_t i = n; i > 0; i--) d[i-1] = s[i-1]; } }
