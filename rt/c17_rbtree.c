/* C17: stand-ins for libstdc++'s out-of-line red-black tree helpers (same contract as rt/rbtree.c: same node layout, same
 * in-order / lookup behaviour, no rebalancing), with one addition.  The tree whose header is `verif_c17_single_header` (the
 * std::set inside the cache store's RangeLock; the harness stores its address there) holds at most ONE element in a single-reader
 * run: a refill range is locked, the refill is done, the range is unlocked.  For that tree insertion and removal are written for
 * the empty / one-element case only and CHECK that this is the case, so the claim does not rest on it.  Reason: the header of that
 * set lives inside the (large) store object, and the general unbalanced-BST code below, which follows parent/child pointers read
 * back from memory, costs the solver's symbolic execution minutes per call there.  Every other tree (the std::map of RangeModule)
 * takes the general code, which is a copy of rt/rbtree.c. */
#include "verif_rt.h"
struct nb { int color; struct nb* parent; struct nb* left; struct nb* right; };
char* verif_c17_single_header;

static void gen_insert(_Bool left, struct nb* x, struct nb* p, struct nb* h) {
  x->parent = p; x->left = 0; x->right = 0; x->color = 1;
  if (left) { p->left = x; if (p == h) { h->parent = x; h->right = x; } else if (p == h->left) h->left = x; }
  else { p->right = x; if (p == h->right) h->right = x; }
}
void ext__ZSt29_Rb_tree_insert_and_rebalancebPSt18_Rb_tree_node_baseS0_RS_(_Bool left, char* x_, char* p_, char* h_) {
  struct nb *x = (struct nb*)x_, *p = (struct nb*)p_, *h = (struct nb*)h_;
  if (h_ == verif_c17_single_header) {
    __CPROVER_assert(p == h && h->parent == 0, "C17: the RangeLock set is empty when a refill range is locked (single reader)");
    __CPROVER_assume(p == h && h->parent == 0);
    x->parent = h; x->left = 0; x->right = 0; x->color = 1;
    h->parent = x; h->left = x; h->right = x;
    return;
  }
  gen_insert(left, x, p, h);
}
static struct nb* inc(struct nb* x) {
  if (x->right) { x = x->right; while (x->left) x = x->left; }
  else { struct nb* y = x->parent; while (x == y->right) { x = y; y = y->parent; } if (x->right != y) x = y; }
  return x;
}
static struct nb* dec(struct nb* x) {
  if (x->left) { struct nb* y = x->left; while (y->right) y = y->right; x = y; }
  else { struct nb* y = x->parent; while (x == y->left) { x = y; y = y->parent; } x = y; }
  return x;
}
char* ext__ZSt18_Rb_tree_incrementPSt18_Rb_tree_node_base(char* x) { return (char*)inc((struct nb*)x); }
char* ext__ZSt18_Rb_tree_incrementPKSt18_Rb_tree_node_base(char* x) { return (char*)inc((struct nb*)x); }
char* ext__ZSt18_Rb_tree_decrementPSt18_Rb_tree_node_base(char* x_) {
  struct nb* x = (struct nb*)x_;
  if (x->color == 0 && x->parent != 0 && x->parent->parent == x) return (char*)x->right;     /* header test as in libstdc++ */
  return (char*)dec(x);
}
char* ext__ZSt18_Rb_tree_decrementPKSt18_Rb_tree_node_base(char* x) { return ext__ZSt18_Rb_tree_decrementPSt18_Rb_tree_node_base(x); }
static struct nb* gen_erase(struct nb* z, struct nb* h) {
  struct nb *y = z, *x = 0;
  if (!y->left) x = y->right; else if (!y->right) x = y->left;
  else { y = y->right; while (y->left) y = y->left; x = y->right; }
  if (y != z) {
    z->left->parent = y; y->left = z->left;
    if (y != z->right) { if (x) x->parent = y->parent; y->parent->left = x; y->right = z->right; z->right->parent = y; }
    if (h->parent == z) h->parent = y; else if (z->parent->left == z) z->parent->left = y; else z->parent->right = y;
    y->parent = z->parent; y = z;
  } else {
    if (x) x->parent = y->parent;
    if (h->parent == z) h->parent = x; else if (z->parent->left == z) z->parent->left = x; else z->parent->right = x;
    if (h->left == z) { if (!z->right) h->left = z->parent; else { struct nb* m = x; while (m->left) m = m->left; h->left = m; } }
    if (h->right == z) { if (!z->left) h->right = z->parent; else { struct nb* m = x; while (m->right) m = m->right; h->right = m; } }
  }
  return y;
}
char* ext__ZSt28_Rb_tree_rebalance_for_erasePSt18_Rb_tree_node_baseRS_(char* z_, char* h_) {
  struct nb *z = (struct nb*)z_, *h = (struct nb*)h_;
  if (h_ == verif_c17_single_header) {
    __CPROVER_assert(h->parent == z && z->left == 0 && z->right == 0, "C17: the range that is unlocked is the only element of the RangeLock set (single reader)");
    __CPROVER_assume(h->parent == z && z->left == 0 && z->right == 0);
    h->parent = 0; h->left = h; h->right = h;
    return z_;
  }
  return (char*)gen_erase(z, h);
}
