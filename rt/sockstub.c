/* C10: stub kernel stream socket for the I/O-loop harness (harness/C10/h_doio.cpp).
 *
 * One connected stream socket (descriptor SK_FD) seen from the code under test:
 *   write direction: every ::send / ::sendmsg / ::write / ::writev either
 *        - fails with EINTR            (at most sk_intr_left times in total, configured by the harness),
 *        - fails with EAGAIN           (at most sk_again_left times in total),
 *        - fails with a hard error     (symbolic errno, not 0/EINTR/EAGAIN; only when enabled),
 *        - or moves a nondeterministic prefix of the gather list, 1 <= k <= min(requested, sk_cap) bytes
 *          (0 only for a request of 0 bytes), appending the bytes in order to the peer-side buffer sk_peer[].
 *   read direction: the peer wrote sk_src_len symbolic bytes sk_src[] and then shut down (EOF at that offset); every
 *        ::read / ::readv / ::recv / ::recvmsg fails as above or moves 1 <= k <= min(requested, remaining, sk_cap) bytes
 *        into the scatter list, in order; returns 0 at EOF or for a request of 0 bytes.
 *   sk_wait() is what the stub MasterEventEngine::wait_for_fd of the harness calls: returns 0 (ready), or -1 with
 *        errno ETIMEDOUT, or -1 with a symbolic non-zero errno (the interrupter's).
 * Every nondeterministic choice is a recorded input (drawn in sk_setup), so counterexamples list them.
 * The stub also records protocol facts the harness asserts on: number of syscalls / waits, a syscall issued after EAGAIN
 * without waiting first (busy spin), a syscall or wait issued after a terminal failure was reported, wrong descriptor or
 * direction, a wait whose absolute deadline differs from the caller's.
 */
#include "verif_rt.h"
#define SK_FD 5
#define SK_MAX 12      /* capacity of the peer-side buffer / longest source stream */
#define SK_NSCRIPT 16  /* system calls per harness run (asserted) */
#define SK_NWSCRIPT 4  /* readiness waits per harness run (asserted) */
#define SK_IOVMAX 3     /* the stub handles gather/scatter lists of at most SK_IOVMAX elements of at most SK_LENMAX bytes, */
#ifndef SK_LENMAX
#define SK_LENMAX 9     /* (asserted, so a harness beyond that bound is an error, never a silent pass) */
#endif
#define SK_EINTR 4
#define SK_EAGAIN 11
#define SK_ETIMEDOUT 110
#define SK_EVENT_READ 1
#define SK_EVENT_WRITE 2
uint8_t nondet_u8(void);
uint32_t nondet_u32(void);
char* ext___errno_location(void);

/* struct iovec / struct msghdr of the code under test are read field by field as scalars at their ABI offsets (x86-64 Linux):
 * the generated C has its own struct types, and a scalar access at a field's offset keeps the solver's pointer tracking exact. */
struct sk_iovec { char* base; uint64_t len; };     /* only for the one-element lists built inside the stub */
#define IOV_BASE(iov, i) (*(char**)((char*)(iov) + 16 * (i)))
#define IOV_LEN(iov, i) (*(uint64_t*)((char*)(iov) + 16 * (i) + 8))
#define MSG_IOV(msg) (*(char**)((char*)(msg) + 16))
#define MSG_IOVLEN(msg) (*(uint64_t*)((char*)(msg) + 24))

static uint8_t sk_peer[SK_MAX]; static uint32_t sk_peer_n;
static uint8_t sk_src[SK_MAX]; static uint32_t sk_src_len, sk_src_pos;
static uint32_t sk_cap, sk_intr_left, sk_again_left, sk_err_ok;
static uint64_t sk_deadline;
/* counters / flags: index = SK_Q_* of the harness */
enum { Q_CALLS, Q_WAITS, Q_INTR, Q_AGAIN, Q_SPIN, Q_AFTER_FAIL, Q_BADFD, Q_BADDIR, Q_BADDEADLINE, Q_LAST_ERRNO, Q_FAILED, Q_TIMEDOUT,
       Q_PEER_N, Q_SRC_POS, Q_SRC_LEN, Q_SPURIOUS_WAIT, Q_EOF_SEEN, Q_LAST_FLAGS, Q_ZERO_REQ, Q_NQ };
static uint32_t sk_q[Q_NQ];
static uint32_t sk_need_wait;
/* All nondeterministic choices are drawn once, unconditionally, in sk_setup() (a fixed number of recorded inputs: the input
 * recorder's index stays concrete, which keeps the formula small); call number i uses entry i of the script. */
static uint8_t sk_sc_choice[SK_NSCRIPT], sk_sc_k[SK_NSCRIPT], sk_sc_errno[SK_NSCRIPT];
static uint8_t sk_ws_choice[SK_NWSCRIPT], sk_ws_errno[SK_NWSCRIPT], sk_ws_step[SK_NWSCRIPT];

static void sk_errno(uint32_t e) { *(int*)ext___errno_location() = (int)e; }

void ext_sk_setup(uint32_t srclen, uint32_t cap, uint32_t kintr, uint32_t kagain, uint32_t err_ok, uint64_t deadline)
{
    __CPROVER_assume(srclen <= SK_MAX && cap >= 1);
    sk_src_len = srclen; sk_cap = cap; sk_intr_left = kintr; sk_again_left = kagain; sk_err_ok = err_ok; sk_deadline = deadline;
    for (uint32_t i = 0; i < SK_MAX; i++) sk_src[i] = nondet_u8();
    for (uint32_t i = 0; i < SK_NSCRIPT; i++) { uint32_t v = nondet_u32(); sk_sc_choice[i] = v & 0xff; sk_sc_k[i] = (v >> 8) & 0xff; sk_sc_errno[i] = (v >> 16) & 0xff; }
    for (uint32_t i = 0; i < SK_NWSCRIPT; i++) { uint32_t v = nondet_u32(); sk_ws_choice[i] = v & 0xff; sk_ws_errno[i] = (v >> 8) & 0xff; sk_ws_step[i] = (v >> 16) & 0xff; }
}
uint32_t ext_sk_get(uint32_t what)
{
    sk_q[Q_PEER_N] = sk_peer_n; sk_q[Q_SRC_POS] = sk_src_pos; sk_q[Q_SRC_LEN] = sk_src_len;
    return sk_q[what];
}
uint32_t ext_sk_peer_byte(uint32_t i) { return sk_peer[i]; }
uint32_t ext_sk_src_byte(uint32_t i) { return sk_src[i]; }

/* common prologue of every syscall: 0 = go on and transfer, -1 = failed (errno set) */
static uint32_t sk_cur;
static int sk_gate(uint32_t fd, uint32_t dir)
{
    uint32_t idx = sk_q[Q_CALLS]++;
    __CPROVER_assert(idx < SK_NSCRIPT, "stub: number of system calls within the stub bound (no runaway loop)");
    sk_cur = idx;
    if (fd != SK_FD) sk_q[Q_BADFD] = 1;
    if (sk_q[Q_FAILED]) sk_q[Q_AFTER_FAIL] = 1;
    if (sk_need_wait) sk_q[Q_SPIN] = 1;
    uint8_t c = sk_sc_choice[idx];
    __CPROVER_assume(c <= 3);
    if (c == 1) { __CPROVER_assume(sk_intr_left > 0); sk_intr_left--; sk_q[Q_INTR]++; sk_errno(SK_EINTR); return -1; }
    if (c == 2) { __CPROVER_assume(sk_again_left > 0); sk_again_left--; sk_q[Q_AGAIN]++; sk_need_wait = dir; sk_errno(SK_EAGAIN); return -1; }
    if (c == 3) {
        uint8_t e = sk_sc_errno[idx];
        __CPROVER_assume(sk_err_ok && e != 0 && e != SK_EINTR && e != SK_EAGAIN);
        sk_q[Q_FAILED] = 1; sk_q[Q_LAST_ERRNO] = e; sk_errno(e); return -1;
    }
    return 0;
}
/* number of bytes this call moves: 1..min(req, limit, cap) */
static uint64_t sk_pick(uint64_t req, uint64_t limit)
{
    uint64_t k = sk_sc_k[sk_cur];
    __CPROVER_assume(k >= 1 && k <= req && k <= limit && k <= sk_cap);
    return k;
}
/* the gather/scatter list is read once per call into locals */
struct sk_list { char* base[SK_IOVMAX]; uint32_t len[SK_IOVMAX]; uint32_t cnt; uint64_t total; };
static void sk_load(struct sk_list* l, char* iov, uint64_t cnt)
{
    __CPROVER_assert(cnt <= SK_IOVMAX, "stub: iovec count within the stub bound");
    l->cnt = (uint32_t)cnt; l->total = 0;
    for (uint32_t i = 0; i < SK_IOVMAX; i++) {
        if (i >= cnt) break;
        uint64_t n = IOV_LEN(iov, i);
        __CPROVER_assert(n <= SK_LENMAX, "stub: element length within the stub bound");
        l->base[i] = IOV_BASE(iov, i); l->len[i] = (uint32_t)n; l->total += n;
    }
}
static uint64_t sk_do_send(uint32_t fd, char* iov, uint64_t cnt, uint32_t flags)
{
    if (sk_gate(fd, SK_EVENT_WRITE)) return (uint64_t)-1;
    sk_q[Q_LAST_FLAGS] = flags;
    struct sk_list l; sk_load(&l, iov, cnt);
    if (l.total == 0) { sk_q[Q_ZERO_REQ]++; return 0; }
    uint64_t k = sk_pick(l.total, (uint64_t)-1), m = 0;
    for (uint32_t i = 0; i < SK_IOVMAX; i++) {
        if (i >= l.cnt) break;
        for (uint32_t j = 0; j < SK_LENMAX; j++) {
            if (j >= l.len[i] || m >= k) break;
            __CPROVER_assert(sk_peer_n < SK_MAX, "stub peer buffer is large enough for the harness bound");
            sk_peer[sk_peer_n++] = (uint8_t)l.base[i][j]; m++;
        }
    }
    return k;
}
static uint64_t sk_do_recv(uint32_t fd, char* iov, uint64_t cnt)
{
    if (sk_gate(fd, SK_EVENT_READ)) return (uint64_t)-1;
    struct sk_list l; sk_load(&l, iov, cnt);
    if (l.total == 0) { sk_q[Q_ZERO_REQ]++; return 0; }
    uint64_t rem = sk_src_len - sk_src_pos;
    if (rem == 0) { sk_q[Q_EOF_SEEN] = 1; return 0; }
    uint64_t k = sk_pick(l.total, rem), m = 0;
    for (uint32_t i = 0; i < SK_IOVMAX; i++) {
        if (i >= l.cnt) break;
        for (uint32_t j = 0; j < SK_LENMAX; j++) {
            if (j >= l.len[i] || m >= k) break;
            l.base[i][j] = (char)sk_src[sk_src_pos++]; m++;
        }
    }
    return k;
}

uint64_t ext_send(uint32_t fd, char* buf, uint64_t n, uint32_t flags) { struct sk_iovec v = { buf, n }; return sk_do_send(fd, (char*)&v, 1, flags); }
uint64_t ext_write(uint32_t fd, char* buf, uint64_t n) { struct sk_iovec v = { buf, n }; return sk_do_send(fd, (char*)&v, 1, 0); }
uint64_t ext_writev(uint32_t fd, char* iov, uint32_t cnt) { return sk_do_send(fd, iov, cnt, 0); }
uint64_t ext_sendmsg(uint32_t fd, char* msg, uint32_t flags) { return sk_do_send(fd, MSG_IOV(msg), MSG_IOVLEN(msg), flags); }
uint64_t ext_recv(uint32_t fd, char* buf, uint64_t n, uint32_t flags) { struct sk_iovec v = { buf, n }; return sk_do_recv(fd, (char*)&v, 1); }
uint64_t ext_read(uint32_t fd, char* buf, uint64_t n) { struct sk_iovec v = { buf, n }; return sk_do_recv(fd, (char*)&v, 1); }
uint64_t ext_readv(uint32_t fd, char* iov, uint32_t cnt) { return sk_do_recv(fd, iov, cnt); }
uint64_t ext_recvmsg(uint32_t fd, char* msg, uint32_t flags) { return sk_do_recv(fd, MSG_IOV(msg), MSG_IOVLEN(msg)); }

/* time that passed during the last readiness wait (the harness's engine advances photon::now by it) */
uint32_t ext_sk_last_wait_time(void) { return sk_q[Q_WAITS] ? sk_ws_step[(sk_q[Q_WAITS] - 1) % SK_NWSCRIPT] : 0; }
/* called by the harness's stub MasterEventEngine::wait_for_fd */
uint32_t ext_sk_wait(uint32_t fd, uint32_t interest, uint64_t expiration)
{
    uint32_t idx = sk_q[Q_WAITS]++;
    __CPROVER_assert(idx < SK_NWSCRIPT, "stub: number of readiness waits within the stub bound");
    if (fd != SK_FD) sk_q[Q_BADFD] = 1;
    if (sk_q[Q_FAILED]) sk_q[Q_AFTER_FAIL] = 1;
    if (!sk_need_wait) sk_q[Q_SPURIOUS_WAIT] = 1;
    else if (sk_need_wait != interest) sk_q[Q_BADDIR] = 1;
    sk_need_wait = 0;
    if (expiration != sk_deadline) sk_q[Q_BADDEADLINE] = 1;
    uint8_t c = sk_ws_choice[idx];
    __CPROVER_assume(c <= 2);
    if (c == 0) return 0;
    uint8_t e = SK_ETIMEDOUT;
    if (c == 2) { e = sk_ws_errno[idx]; __CPROVER_assume(e != 0); } else sk_q[Q_TIMEDOUT] = 1;
    sk_q[Q_FAILED] = 1; sk_q[Q_LAST_ERRNO] = e; sk_errno(e);
    return (uint32_t)-1;
}

/* KernelSocketStream harness (OP >= 50): the other virtual methods of the stream (close, shutdown, get/setsockopt, get*name,
 * sendfile) are referenced by its vtable but are not called by the harness; reaching one of their system calls is reported. */
#define SK_NOTREACHED(ret) __CPROVER_assert(0, "stub: system call outside the harness reached"); __CPROVER_assume(0); return ret
uint32_t ext_close(uint32_t fd) { SK_NOTREACHED(0); }
uint32_t ext_shutdown(uint32_t fd, uint32_t how) { SK_NOTREACHED(0); }
uint32_t ext_setsockopt(uint32_t fd, uint32_t level, uint32_t name, char* val, uint32_t len) { SK_NOTREACHED(0); }
uint32_t ext_getsockopt(uint32_t fd, uint32_t level, uint32_t name, char* val, char* len) { SK_NOTREACHED(0); }
uint64_t ext_sendfile(uint32_t out, uint32_t in, char* off, uint64_t n) { SK_NOTREACHED(0); }
uint32_t ext_getsockname(uint32_t fd, char* addr, char* len) { SK_NOTREACHED(0); }
uint32_t ext_getpeername(uint32_t fd, char* addr, char* len) { SK_NOTREACHED(0); }
char* ext_strncpy(char* d, char* s, uint64_t n) { SK_NOTREACHED(d); }
/* photon::thread_usleep is referenced by other classes of net/kernel_socket.cpp (server loop, edge-triggered poller) that share
 * virtual-call slots with KernelSocketStream; no harness path sleeps (blocking goes through the stub engine's wait_for_fd). */
uint32_t ext__ZN6photon13thread_usleepENS_7TimeoutE(uint64_t timeout) { SK_NOTREACHED(0); }
