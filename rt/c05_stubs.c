/* C05 join/die jobs: thread-local-storage teardown is outside the claim (empty body); the default stack deallocator (munmap / free) is never to be
 * reached - the harness installs a counting delegate as photon_thread_dealloc; it is address-taken by the delegate's static initialiser, so indirect
 * calls list it as a candidate: reaching it is an assertion failure, not a silent assumption. */
#include "verif_rt.h"
void ext__ZN6photon14deallocate_tlsEPPv(char* p) { (void)p; }
void ext__ZN6photon35default_photon_thread_stack_deallocEPvS0_m(char* o, char* p, uint64_t n)
{
    __CPROVER_assert(0, "default_photon_thread_stack_dealloc reached (harness expects its counting deallocator only)");
    __CPROVER_assume(0);
}
