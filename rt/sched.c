/* Bounded-context-switch scheduler for sequentialised model threads (DESIGN 2.4).
 * Thread entries are emitted by ir2c --thread as resumable functions run_f_thread_entry_<k>(inst):
 *   return 0 = finished, 1 = yielded / pre-empted (still runnable), 2 = blocked in the kernel contract K.
 * The solver picks the thread of every slice and whether a timeout event fires first.
 * Compile-time parameters: NT (threads), SLICES. */
#include "verif_rt.h"
#ifndef NT
#define NT 2
#endif
#ifndef SLICES
#define SLICES 6
#endif
_Bool nondet_bool(void); uint8_t nondet_u8(void);
_Bool verif_cs(void) { return nondet_bool(); }
void verif_set_tid(uint32_t t) { verif_os_tid = (int)t; }
uint32_t verif_get_tid(void) { return (uint32_t)verif_os_tid; }
#ifdef VERIF_NO_K   /* threads that never block (lock-free code): no kernel contract */
static void f_K_init(void) {} static void f_K_tick(void) {} static uint32_t f_K_timeout_event(uint32_t i) { return 0; } static uint32_t f_K_is_blocked(uint32_t i) { return 0; } static uint32_t f_K_can_timeout(uint32_t i) { return 0; } static void f_K_try_unblock(uint32_t i) {}
#else
void f_K_init(void); void f_K_tick(void); uint32_t f_K_timeout_event(uint32_t); uint32_t f_K_is_blocked(uint32_t); uint32_t f_K_can_timeout(uint32_t); void f_K_try_unblock(uint32_t);
#endif
void f_world_init(void); void f_world_final(uint32_t all_done, uint32_t stuck);
#ifdef VERIF_WORLD_STEP
void f_world_step(void);   /* state invariant judged between any two execution slices */
#endif
int run_f_thread_entry_0(int); int run_f_thread_entry_1(int);
#if NT > 2
int run_f_thread_entry_2(int);
#endif
#if NT > 3
int run_f_thread_entry_3(int);
#endif
unsigned verif_slices_used;
void f_sched(void) {
  f_K_init(); f_world_init();
  int st[NT] = { 1
#if NT > 1
    , 1
#endif
#if NT > 2
    , 1
#endif
#if NT > 3
    , 1
#endif
  };   /* no loops besides the slice loop: it must stay the only loop (f_sched.0) for --unwindset */
  int alive = NT;
  for (int s = 0; s < SLICES; s++) {
    if (!alive) break;
#ifdef VERIF_WORLD_STEP
    f_world_step();
#endif
#define RUNNABLE(i) (st[i] != 0 && (!f_K_is_blocked(i) || f_K_can_timeout(i)))
    { int anyrun = RUNNABLE(0) || RUNNABLE(1)
#if NT > 2
        || RUNNABLE(2)
#endif
#if NT > 3
        || RUNNABLE(3)
#endif
        ;
      if (!anyrun) break; }      /* stuck: judged after the loop (no inner loop here) */
    f_K_tick();
    /* a deadline may expire without the sleeper running at once: it only becomes runnable, others may run first */
    { uint8_t u = nondet_u8();
      if (u == 0 && st[0] != 0) f_K_timeout_event(0); else if (u == 1 && st[1] != 0) f_K_timeout_event(1);
#if NT > 2
      else if (u == 2 && st[2] != 0) f_K_timeout_event(2);
#endif
#if NT > 3
      else if (u == 3 && st[3] != 0) f_K_timeout_event(3);
#endif
    }
    uint8_t t = nondet_u8(); __CPROVER_assume(t < NT && st[t] != 0);
    int r;   /* a blocked thread is chosen only to let its deadline expire */
#ifdef VERIF_SHARED_ERRNO
    /* errno belongs to the vCPU: whatever ran in between may have changed it, so it is arbitrary whenever another thread gets the processor */
    { static int last = -1; extern int verif_errno_v[]; int nondet_int(void); if (t != last) verif_errno_v[0] = nondet_int(); last = t; }
#endif
    /* thread id and instance are constants inside each branch: CURRENT, the frame and the thread object stay concrete
       pointers for the symbolic execution (a symbolic index made the same query 40x slower, DESIGN 2.4) */
    if (t == 0) { f_K_try_unblock(0); if (f_K_is_blocked(0)) { __CPROVER_assume(f_K_timeout_event(0)); f_K_try_unblock(0); __CPROVER_assume(!f_K_is_blocked(0)); } verif_os_tid = 0; r = run_f_thread_entry_0(0); st[0] = r; }
    else if (t == 1) { f_K_try_unblock(1); if (f_K_is_blocked(1)) { __CPROVER_assume(f_K_timeout_event(1)); f_K_try_unblock(1); __CPROVER_assume(!f_K_is_blocked(1)); } verif_os_tid = 1; r = run_f_thread_entry_1(0); st[1] = r; }
#if NT > 2
    else if (t == 2) { f_K_try_unblock(2); if (f_K_is_blocked(2)) { __CPROVER_assume(f_K_timeout_event(2)); f_K_try_unblock(2); __CPROVER_assume(!f_K_is_blocked(2)); } verif_os_tid = 2; r = run_f_thread_entry_2(0); st[2] = r; }
#endif
#if NT > 3
    else if (t == 3) { f_K_try_unblock(3); if (f_K_is_blocked(3)) { __CPROVER_assume(f_K_timeout_event(3)); f_K_try_unblock(3); __CPROVER_assume(!f_K_is_blocked(3)); } verif_os_tid = 3; r = run_f_thread_entry_3(0); st[3] = r; }
#endif
    else r = 1;
    if (r == 0) alive--;
    verif_slices_used++;
  }
  int stuck = 0;
  if (alive) {
    /* nobody runnable and no deadline can expire, yet not everybody finished */
    stuck = 1;
    if (RUNNABLE(0)) stuck = 0;
#if NT > 1
    if (RUNNABLE(1)) stuck = 0;
#endif
#if NT > 2
    if (RUNNABLE(2)) stuck = 0;
#endif
#if NT > 3
    if (RUNNABLE(3)) stuck = 0;
#endif
#ifndef VERIF_STUCK_IS_LEGAL   /* for primitives where blocking forever can be legitimate (e.g. a semaphore that is never signalled) the harness judges the stuck state itself */
    __CPROVER_assert(!stuck, "no deadlock / lost wake-up: an unfinished thread is runnable or can still time out");
#endif
  }
  f_world_final(alive == 0, stuck);
  if (alive == 0) __CPROVER_assert(0, "WITNESS: all threads ran to completion within the slice budget");
}
