/* native CBMC threads (only for harnesses whose shared state is integers) */
#include "verif_rt.h"
void verif_spawn(char* f, char* a) { __CPROVER_ASYNC_1: ((void (*)(char*))f)(a); }
